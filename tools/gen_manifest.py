#!/usr/bin/env python3
"""Regenerates MANIFEST.json from verif_lib/props.py (single source of truth)."""
import json, os, sys
ROOT = os.path.dirname(os.path.dirname(os.path.abspath(__file__)))
sys.path.insert(0, ROOT)
from verif_lib.props import PROPS, NOT_APPLICABLE, HOOK_COMMITS

checks = []
for pid in sorted(PROPS):
    P = PROPS[pid]
    checks.append({
        "property_id": pid,
        "quick_cmd": "./check %s --tier quick" % pid,
        "thorough_cmd": "./check %s --tier thorough" % pid,
        "evidence_file": "/verif/evidence/%s.json" % pid,
        "replay_cmd_template": "./check %s --replay {path}" % pid,
        "engine": P.get("engine_name", "E1-kani"),
        "level_claimed": {"category": "model_checking", "text": P["level_text"], "design_ref": P.get("design_ref", "DESIGN.md §2 " + pid)},
        "level_note": P["level_note"],
        "technique": P.get("technique", "bounded model checking of the compiled Rust code (Kani/CBMC, SAT: CaDiCaL) with symbolic inputs"),
    })
man = {
    "version": 1,
    "setup_cmd": "./check --setup",
    "hooks": {
        "guard": "cargo feature sux_verif",
        "enable": "the harness crates depend on sux with features = [\"sux_verif\"] (kani/Cargo.toml, kani-nda/Cargo.toml); E2 dumps MIR with --features sux_verif",
        "baseline_off_cmd": "cd /repo && cargo test --workspace --no-fail-fast --offline",
        "source_commits": HOOK_COMMITS,
        "add_only": True,
    },
    "engines": [
        {"name": "E1-kani", "path": "/verif/kani", "serves_properties": sorted(p for p in PROPS if PROPS[p].get("engine", "kani") == "kani"),
         "kind_free_text": "Kani 0.68 proof harnesses over the real crate (path dependency on /repo), decided by CBMC 6.11 + CaDiCaL; second flavour kani-nda with debug assertions off"},
        {"name": "E2-mirsmt", "path": "/verif/mirsmt", "serves_properties": sorted(p for p in PROPS if PROPS[p].get("engine") == "e2"),
         "kind_free_text": "MIR (nightly -Zunpretty=mir of /repo) -> SMT-LIB2 bit-vector translator, decided by z3 and cross-checked on cvc5"},
    ],
    "checks": checks,
    "not_applicable": [{"property_id": k, "reason": v} for k, v in sorted(NOT_APPLICABLE.items()) if k not in PROPS],
    "notes": "Solver-based checking of the real code; see DESIGN.md. Exit 2 from a check means inconclusive (timeout / out of memory / non-replaying counter-example), never success.",
}
json.dump(man, open(os.path.join(ROOT, "MANIFEST.json"), "w"), indent=1)
print("MANIFEST.json: %d checks, %d not applicable" % (len(checks), len(man["not_applicable"])))
