#!/bin/bash
# usage: validate_seed.sh <seed-id> <agent-worktree> <property>
# Confirms in a fresh scratch worktree of /repo HEAD that the seeded change compiles, passes the existing
# suite, and that the demonstration fails with it and passes without it. Stores patch/demo/meta under /verif/seeded/<id>/.
set -u
ID=$1; SRC=$2; PROP=$3
OUT=/verif/seeded/$ID
mkdir -p $OUT
cp $SRC/patch.diff $OUT/patch.diff
cp $SRC/tests/seeded_demo.rs $OUT/seeded_demo.rs
cp $SRC/SEEDED.md $OUT/SEEDED.md 2>/dev/null
WT=/tmp/val-$ID
git -C /repo worktree remove --force $WT 2>/dev/null
git -C /repo worktree add -q $WT HEAD || exit 3
cd $WT
export CARGO_NET_OFFLINE=true CARGO_TARGET_DIR=$WT/target
R=$OUT/validation.txt
echo "validated against /repo HEAD $(git -C /repo rev-parse --short HEAD) on $(date -u +%FT%TZ)" > $R
if ! git apply --3way $OUT/patch.diff 2>>$R && ! git apply $OUT/patch.diff 2>>$R; then echo "APPLY: FAILED" >> $R; cd /; git -C /repo worktree remove --force $WT; exit 4; fi
echo "APPLY: ok" >> $R
cargo test --workspace --no-fail-fast --offline > $WT/suite.log 2>&1
PASS=$(grep -E "^test result: ok" $WT/suite.log | awk '{s+=$4} END {print s}')
FAILN=$(grep -E "^test result:" $WT/suite.log | awk '{s+=$6} END {print s}')
echo "SUITE with change: passed=$PASS failed=$FAILN (expected 192 tests + 34 doc tests = 226 passed, 0 failed)" >> $R
cp $OUT/seeded_demo.rs tests/seeded_demo.rs
cargo test --offline --test seeded_demo > $WT/demo_with.log 2>&1; RC1=$?
echo "DEMO with change: rc=$RC1 $(grep -E '^test result' $WT/demo_with.log | head -1)" >> $R
git checkout -q HEAD -- src
cargo test --offline --test seeded_demo > $WT/demo_without.log 2>&1; RC2=$?
echo "DEMO without change: rc=$RC2 $(grep -E '^test result' $WT/demo_without.log | head -1)" >> $R
if [ "$FAILN" = "0" ] && [ "$RC1" != "0" ] && [ "$RC2" = "0" ]; then echo "VERDICT: valid" >> $R; else echo "VERDICT: INVALID" >> $R; fi
cd /
git -C /repo worktree remove --force $WT
cat $R
