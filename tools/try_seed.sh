#!/bin/bash
# usage: try_seed.sh <seed-id> <property> [check args...]
# Applies /verif/seeded/<id>/patch.diff to /repo, runs the property's check, and undoes the patch.
ID=$1; PROP=$2; shift 2
cd /repo || exit 3
if [ -n "$(git status --porcelain --untracked-files=no)" ]; then echo "/repo not clean"; exit 3; fi
git apply --3way /verif/seeded/$ID/patch.diff 2>/dev/null || git apply /verif/seeded/$ID/patch.diff || { echo "patch does not apply"; git checkout -- .; exit 4; }
git reset -q
cd /verif
# evidence of runs on a mutated tree goes to a scratch directory, not to /verif/evidence
export VERIF_EVIDENCE_DIR=/verif/.cache/evidence-seeded
VERIF_NOLOCK=${VERIF_NOLOCK:-} ./check $PROP "$@" > /verif/seeded/$ID/check_$PROP.out 2>&1; RC=$?
git -C /repo checkout -- .
echo "seed $ID on $PROP: exit $RC"; grep -E "^VIOLATION|^INCONCLUSIVE" /verif/seeded/$ID/check_$PROP.out | head -5
exit $RC
