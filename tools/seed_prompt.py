#!/usr/bin/env python3
"""Prints the prompt for a mutation-seeding sub-agent: only the property text and a worktree path."""
import json, sys
pid, wt = sys.argv[1], sys.argv[2]
extra = sys.argv[3] if len(sys.argv) > 3 else ""
for l in open('/verif/properties.jsonl'):
    p = json.loads(l)
    if p['id'] == pid:
        break
print(f"""You are helping evaluate a verification effort for the Rust crate vigna/sux-rs (succinct data structures). You have your own scratch git worktree of the repository at {wt} (a worktree of /repo at its current HEAD). Work ONLY inside {wt}; never touch /repo itself or /verif (do not read /verif either).

Here is a semantic property the library is supposed to satisfy (JSON):

{json.dumps(p, indent=1)}

YOUR TASK: produce ONE realistic change (a plausible bug a maintainer could introduce: an off-by-one, a wrong mask/shift, a dropped guard, a wrong constant, a stale value, a reordering, two cooperating sites that each look fine alone...) to the library source under {wt}/src that BREAKS this property, while
  (a) the crate still compiles (`cargo build --offline` and `cargo test --offline --no-run`),
  (b) the ENTIRE existing test suite still passes with the change: run `cd {wt} && CARGO_NET_OFFLINE=true cargo test --workspace --no-fail-fast --offline 2>&1 | tail -40` (takes a few minutes; all 192 tests plus doc tests must pass; if some doc test fails because of your change, pick another change),
  (c) the breakage needs something SPECIFIC to manifest (an unusual input value, a boundary width/length/alignment, a particular multi-step sequence of operations, a particular interleaving, or two cooperating sites) - NOT something ordinary use would expose at once.
{extra}
Also write a DEMONSTRATION: a small Rust integration test file placed at {wt}/tests/seeded_demo.rs (using only the crate's public API and its existing dependencies; no new crates can be fetched - the sandbox has no network) that FAILS with your change applied and PASSES on the unmodified code. Verify both: run `cargo test --offline --test seeded_demo` with the change (must fail), then `git stash` the src change (keep the demo), run it again (must pass), then `git stash pop`.

Do not modify or delete existing tests. Do not change Cargo.toml features or dependencies. Keep the change small (a few lines). Do not change public signatures. Do not touch anything behind `#[cfg(feature = "sux_verif")]`.

When done, leave in {wt}:
  - the source change applied in the working tree (uncommitted),
  - tests/seeded_demo.rs,
  - a file {wt}/SEEDED.md describing: which file/function you changed and how, why existing tests don't notice, what specific input/sequence is needed to manifest it, and the exact commands you ran with their outcomes.
Then produce the patch: `cd {wt} && git diff -- src > {wt}/patch.diff`.

Report back briefly: the one-paragraph description of the change, what it needs to manifest, and confirmation (with command outputs summarized) that the full suite passes with the change and the demo fails with / passes without it. Build output can be large: when finished run `rm -rf {wt}/target` to free disk space.""")
