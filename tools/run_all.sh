#!/bin/bash
# Runs every registered check of a tier in sequence (evidence is written by each check).
TIER=${1:-quick}
cd /verif
for p in $(python3 -c "import json; print(' '.join(c['property_id'] for c in json.load(open('MANIFEST.json'))['checks']))"); do
  /usr/bin/time -f "$p wall %es" ./check $p --tier $TIER > .cache/all-$TIER-$p.out 2>&1
  echo "$p exit $? $(tail -1 .cache/all-$TIER-$p.out)"
done
