#!/usr/bin/env python3
"""usage: seed_meta.py <id> <property> <needs> <caught_by> [<notes>]  -> writes /verif/seeded/<id>/meta.json"""
import json, os, sys, re
sid, prop, needs, caught = sys.argv[1:5]
notes = sys.argv[5] if len(sys.argv) > 5 else ""
d = "/verif/seeded/" + sid
val = open(d + "/validation.txt").read() if os.path.exists(d + "/validation.txt") else ""
outs = {}
for f in sorted(os.listdir(d)):
    if f.startswith("check_") and f.endswith(".out"):
        txt = open(os.path.join(d, f)).read()
        outs[f[6:-4]] = {"violations": re.findall(r"^VIOLATION.*$", txt, re.M)[:6], "inconclusive": re.findall(r"^INCONCLUSIVE.*$", txt, re.M)[:6]}
meta = {
    "id": sid, "breaks_property": prop, "needs_to_manifest": needs,
    "files": {"patch": "patch.diff", "demonstration": "seeded_demo.rs (integration test: fails with the change, passes without)", "author_notes": "SEEDED.md"},
    "validation": val.strip().splitlines(),
    "what_i_ran": ["tools/validate_seed.sh %s <agent worktree> %s   (scratch worktree of /repo HEAD: apply, full suite, demo with / without)" % (sid, prop),
                   "tools/try_seed.sh %s <check>   (git -C /repo apply; ./check <prop>; git -C /repo checkout -- .)" % sid],
    "check_results": outs, "caught_by": caught, "notes": notes,
}
json.dump(meta, open(d + "/meta.json", "w"), indent=1)
print("wrote", d + "/meta.json")
