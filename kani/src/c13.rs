//! C13 — concurrent writers to distinct elements never interfere.
//!
//! Kani does not execute threads; interleavings are encoded as a
//! rely–guarantee step check over the real atomic methods through the
//! scheduling hook H1 (`sux::verif::SCHED_HOOK`, feature `sux_verif`). The
//! hook is an *interference function*: at every scheduling point before an
//! atomic operation it may (at most `BUDGET` times per call) overwrite every
//! bit of the backing array that does not belong to the element written by
//! the analysed thread with arbitrary values — an over-approximation of any
//! number of other threads writing any other elements under any schedule.
//! At the scheduling point after each successful atomic write it checks the
//! guarantee: the write changed no bit outside the thread's own element.
use crate::util::*;
use std::sync::atomic::{AtomicU16, AtomicUsize, Ordering};
use sux::bits::{AtomicBitFieldVec, AtomicBitVec};
use sux::traits::bit_field_slice::AtomicBitFieldSlice;

const NW: usize = 2;

static mut BASE: *mut usize = core::ptr::null_mut();
/// Bits of each word owned by the analysed thread's element.
static mut PROT: [usize; NW] = [0; NW];
/// Contents after the last interference / at the last scheduling point.
static mut SNAP: [usize; NW] = [0; NW];
static mut BUDGET: usize = 0;
static mut INTERFERED: usize = 0;
static mut POSTS: usize = 0;

fn interfere(id: usize, _addr: *const u8) {
    unsafe {
        if id & 0x100 != 0 {
            // guarantee: our write changed nothing outside our element
            let mut k = 0;
            while k < NW {
                let p = BASE.add(k);
                assert!((*p ^ SNAP[k]) & !PROT[k] == 0, "an atomic write changed bits of other elements");
                SNAP[k] = *p;
                k += 1;
            }
            POSTS += 1;
            return;
        }
        if BUDGET > 0 && kani::any::<bool>() {
            BUDGET -= 1;
            INTERFERED += 1;
            let mut k = 0;
            while k < NW {
                let noise: usize = kani::any();
                let p = BASE.add(k);
                *p = (*p & PROT[k]) | (noise & !PROT[k]);
                k += 1;
            }
        }
        let mut k = 0;
        while k < NW {
            SNAP[k] = *BASE.add(k);
            k += 1;
        }
    }
}

fn arm(base: *const AtomicUsize, prot: [usize; NW], budget: usize) {
    unsafe {
        BASE = base as *mut usize;
        PROT = prot;
        BUDGET = budget;
        INTERFERED = 0;
        POSTS = 0;
        let mut k = 0;
        while k < NW {
            SNAP[k] = *BASE.add(k);
            k += 1;
        }
        sux::verif::SCHED_HOOK = Some(interfere);
    }
}

fn disarm() {
    unsafe {
        sux::verif::SCHED_HOOK = None;
    }
}

pub mod q {
    use super::*;

    /// A field inside one word (any width 1..=64), up to two interferences.
    #[kani::proof]
    #[kani::unwind(5)]
    pub fn bfv_inword() {
        let w: usize = kani::any();
        kani::assume(w >= 1 && w <= 64);
        let init: [usize; NW] = kani::any();
        let words = [AtomicUsize::new(init[0]), AtomicUsize::new(init[1])];
        let n = 64 * NW / w;
        let v = unsafe { AtomicBitFieldVec::<usize, _>::from_raw_parts(words, w, n) };
        let i: usize = kani::any();
        kani::assume(i < n);
        let pos = i * w;
        kani::assume(pos % 64 + w <= 64);
        let x: usize = kani::any();
        kani::assume(x <= lowmask(w));
        let mut prot = [0usize; NW];
        prot[pos / 64] = lowmask(w) << (pos % 64);
        arm(v.as_slice().as_ptr(), prot, 2);
        v.set_atomic(i, x, Ordering::Relaxed);
        disarm();
        assert_eq!(v.get_atomic(i, Ordering::Relaxed), x);
        unsafe {
            assert!(POSTS == 1);
            kani::cover!(INTERFERED == 2, "two interferences, two CAS retries");
            kani::cover!(INTERFERED == 0);
        }
        kani::cover!(w == 64, "full width");
    }

    /// A field straddling two words (widths 2..=63), up to two interferences
    /// spread over both compare-exchange loops.
    #[kani::proof]
    #[kani::unwind(5)]
    pub fn bfv_straddle() {
        let w: usize = kani::any();
        kani::assume(w >= 2 && w <= 63);
        let init: [usize; NW] = kani::any();
        let words = [AtomicUsize::new(init[0]), AtomicUsize::new(init[1])];
        let n = 64 * NW / w;
        let v = unsafe { AtomicBitFieldVec::<usize, _>::from_raw_parts(words, w, n) };
        let i: usize = kani::any();
        kani::assume(i < n);
        let pos = i * w;
        kani::assume(pos < 64 && pos + w > 64);
        let x: usize = kani::any();
        kani::assume(x <= lowmask(w));
        let prot = [lowmask(w) << pos, lowmask(w) >> (64 - pos)];
        arm(v.as_slice().as_ptr(), prot, 2);
        v.set_atomic(i, x, Ordering::Relaxed);
        disarm();
        assert_eq!(v.get_atomic(i, Ordering::Relaxed), x);
        unsafe {
            assert!(POSTS == 2);
            kani::cover!(INTERFERED == 2, "two interferences");
        }
    }

    /// Neighbour preservation stated directly: an element adjacent to the
    /// written one, set by "another thread" during an interference, keeps
    /// that value (widths sharing a word).
    #[kani::proof]
    #[kani::unwind(5)]
    pub fn bfv_adjacent() {
        let w: usize = kani::any();
        kani::assume(w >= 1 && w <= 32);
        let init: [usize; NW] = kani::any();
        let words = [AtomicUsize::new(init[0]), AtomicUsize::new(init[1])];
        let n = 64 * NW / w;
        let v = unsafe { AtomicBitFieldVec::<usize, _>::from_raw_parts(words, w, n) };
        let i: usize = kani::any();
        kani::assume(i < n && i + 1 < n);
        let pos = i * w;
        let x: usize = kani::any();
        kani::assume(x <= lowmask(w));
        let mut prot = [0usize; NW];
        if pos % 64 + w <= 64 {
            prot[pos / 64] = lowmask(w) << (pos % 64);
        } else {
            prot[0] = lowmask(w) << pos;
            prot[1] = lowmask(w) >> (64 - pos);
        }
        arm(v.as_slice().as_ptr(), prot, 1);
        v.set_atomic(i, x, Ordering::Relaxed);
        disarm();
        // the neighbour holds whatever the last interference left there
        let neigh = v.get_atomic(i + 1, Ordering::Relaxed);
        let snap: [usize; NW] = unsafe { SNAP };
        let np = (i + 1) * w;
        let exp = if np % 64 + w <= 64 {
            (snap[np / 64] >> (np % 64)) & lowmask(w)
        } else {
            ((snap[0] >> np) | (snap[1] << (64 - np))) & lowmask(w)
        };
        assert_eq!(neigh, exp);
        assert_eq!(v.get_atomic(i, Ordering::Relaxed), x);
        kani::cover!(unsafe { INTERFERED } == 1 && pos % 64 + w > 64, "straddling, interfered");
    }

    /// `AtomicBitVec::set` under interference on the other 127 bits.
    #[kani::proof]
    #[kani::unwind(4)]
    pub fn bitvec_set() {
        let init: [usize; NW] = kani::any();
        let words = [AtomicUsize::new(init[0]), AtomicUsize::new(init[1])];
        let v = unsafe { AtomicBitVec::from_raw_parts(words, 64 * NW) };
        let i: usize = kani::any();
        kani::assume(i < 64 * NW);
        let b: bool = kani::any();
        let mut prot = [0usize; NW];
        prot[i / 64] = 1 << (i % 64);
        let base: &[AtomicUsize] = v.as_ref();
        arm(base.as_ptr(), prot, 2);
        v.set(i, b, Ordering::Relaxed);
        disarm();
        assert_eq!(v.get(i, Ordering::Relaxed), b);
        unsafe {
            assert!(POSTS == 1);
            kani::cover!(INTERFERED == 1);
        }
    }

    /// `AtomicBitVec::swap` returns the value the bit had at the atomic
    /// instant (which is what makes any set of swaps of the same bit
    /// equivalent to some sequential order), stores the new one and changes
    /// no other bit. Here the interference may change *every* bit, the swapped
    /// one included, up to the atomic instant.
    #[kani::proof]
    #[kani::unwind(4)]
    pub fn bitvec_swap() {
        let init: [usize; NW] = kani::any();
        let words = [AtomicUsize::new(init[0]), AtomicUsize::new(init[1])];
        let v = unsafe { AtomicBitVec::from_raw_parts(words, 64 * NW) };
        let i: usize = kani::any();
        kani::assume(i < 64 * NW);
        let b: bool = kani::any();
        let base: &[AtomicUsize] = v.as_ref();
        arm(base.as_ptr(), [0; NW], 2);
        unsafe {
            OWN = [0; NW];
            OWN[i / 64] = 1 << (i % 64);
            sux::verif::SCHED_HOOK = Some(interfere_swap);
        }
        let old = v.swap(i, b, Ordering::Relaxed);
        disarm();
        let at_instant: [usize; NW] = unsafe { SNAP_PRE };
        assert_eq!(old, (at_instant[i / 64] >> (i % 64)) & 1 == 1);
        assert_eq!(v.get(i, Ordering::Relaxed), b);
        unsafe {
            assert!(POSTS == 1);
            kani::cover!(INTERFERED >= 1 && old != ((init[i / 64] >> (i % 64)) & 1 == 1), "another thread changed the bit before the swap");
        }
    }

    static mut SNAP_PRE: [usize; NW] = [0; NW];
    static mut OWN: [usize; NW] = [0; NW];

    fn interfere_swap(id: usize, addr: *const u8) {
        unsafe {
            if id & 0x100 != 0 {
                let mut k = 0;
                while k < NW {
                    let p = BASE.add(k);
                    assert!((*p ^ SNAP_PRE[k]) & !OWN[k] == 0, "swap changed other bits");
                    k += 1;
                }
                POSTS += 1;
                return;
            }
            interfere(id, addr);
            SNAP_PRE = SNAP;
        }
    }
}

#[cfg(feature = "c13_t")]
pub mod t {
    use super::*;

    /// Straddling and in-word fields with three interferences.
    #[kani::proof]
    #[kani::unwind(6)]
    pub fn bfv_any_budget3() {
        let w: usize = kani::any();
        kani::assume(w >= 1 && w <= 64);
        let init: [usize; NW] = kani::any();
        let words = [AtomicUsize::new(init[0]), AtomicUsize::new(init[1])];
        let n = 64 * NW / w;
        let v = unsafe { AtomicBitFieldVec::<usize, _>::from_raw_parts(words, w, n) };
        let i: usize = kani::any();
        kani::assume(i < n);
        let pos = i * w;
        let x: usize = kani::any();
        kani::assume(x <= lowmask(w));
        let mut prot = [0usize; NW];
        if pos % 64 + w <= 64 {
            prot[pos / 64] = lowmask(w) << (pos % 64);
        } else {
            prot[0] = lowmask(w) << pos;
            prot[1] = lowmask(w) >> (64 - pos);
        }
        arm(v.as_slice().as_ptr(), prot, 3);
        v.set_atomic(i, x, Ordering::Relaxed);
        disarm();
        assert_eq!(v.get_atomic(i, Ordering::Relaxed), x);
        kani::cover!(unsafe { INTERFERED } == 3);
    }
}
