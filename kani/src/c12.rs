//! C12 — no safe call reads or writes outside its buffers: it answers or it
//! panics.
//!
//! The harnesses of module `qs` / `ts` run with `--prove-safety-only`: panics
//! are allowed outcomes (path ends) and only CBMC's memory-safety checks
//! (pointer dereferences, `get_unchecked` preconditions, `read_unaligned`,
//! slice indexing intrinsics) remain. Every safe public method is called
//! with fully symbolic, *unconstrained* arguments on structures built as in
//! C01–C06, C09, C10 (same bounds).
use crate::ef_grid::log2_tab;
use crate::efcommon::*;
use crate::util::*;
use std::sync::atomic::{AtomicUsize, Ordering};
use sux::bits::{AtomicBitFieldVec, AtomicBitVec, BitFieldVec, BitVec};
use sux::dict::{EliasFano, EliasFanoBuilder};
use sux::prelude::*;
use sux::rank_sel::{Rank9, RankSmall};

pub mod qs {
    use super::*;
    const N: usize = 3;

    fn any_bv() -> ([usize; N], usize) {
        let words: [usize; N] = kani::any();
        let len: usize = kani::any();
        kani::assume(len <= 64 * N);
        (words, len)
    }

    /// BitVec readers with arbitrary arguments, iterators driven past their end.
    #[kani::proof]
    #[kani::unwind(28)]
    pub fn bitvec_readers() {
        let (words, len) = any_bv();
        let v = unsafe { BitVec::from_raw_parts(words, len) };
        let which: u8 = kani::any();
        let i: usize = kani::any();
        kani::cover!(which == 0 && i >= len);
        kani::cover!(which == 3 && len == 0);
        if which == 0 {
            let _ = v.get(i);
        } else if which == 1 {
            let _ = v[i];
        } else if which == 2 {
            let mut it = v.iter();
            let mut k = 0;
            while k < 5 {
                let _ = it.next();
                k += 1;
            }
        } else if which == 3 {
            let mut it = v.iter_ones();
            let mut k = 0;
            while k < 5 {
                let _ = it.next();
                k += 1;
            }
        } else if which == 4 {
            let mut it = v.iter_zeros();
            let mut k = 0;
            while k < 5 {
                let _ = it.next();
                k += 1;
            }
        } else if which == 5 {
            let _ = v.count_ones();
        } else {
            let (w2, l2) = any_bv();
            let o = unsafe { BitVec::from_raw_parts(w2, l2) };
            let _ = v == o;
        }
    }

    /// The same on zero-word and one-word backends.
    #[kani::proof]
    #[kani::unwind(8)]
    pub fn bitvec_tiny_backends() {
        let e = unsafe { BitVec::from_raw_parts([0usize; 0], 0) };
        let i: usize = kani::any();
        let which: u8 = kani::any();
        if which == 0 {
            let _ = e.get(i);
        } else if which == 1 {
            let mut it = e.iter_ones();
            let _ = it.next();
            let _ = it.next();
        } else if which == 2 {
            let mut it = e.iter_zeros();
            let _ = it.next();
            let _ = it.next();
        } else if which == 3 {
            let mut it = e.iter();
            let _ = it.next();
        } else {
            let _ = e.count_ones();
        }
        let w: [usize; 1] = kani::any();
        let len: usize = kani::any();
        kani::assume(len <= 64);
        let o = unsafe { BitVec::from_raw_parts(w, len) };
        let mut it = o.iter_ones();
        let mut k = 0;
        while k < 4 {
            let _ = it.next();
            k += 1;
        }
        let mut it = o.iter_zeros();
        let mut k = 0;
        while k < 4 {
            let _ = it.next();
            k += 1;
        }
        kani::cover!(true);
    }

    /// BitVec writers and the growable API with arbitrary arguments.
    #[kani::proof]
    #[kani::unwind(8)]
    pub fn bitvec_writers() {
        let (words, len) = any_bv();
        let which: u8 = kani::any();
        let i: usize = kani::any();
        kani::cover!(which == 0 && i >= len);
        if which < 4 {
            let mut v = unsafe { BitVec::from_raw_parts(words, len) };
            if which == 0 {
                v.set(i, kani::any());
            } else if which == 1 {
                v.fill(kani::any());
            } else if which == 2 {
                v.flip();
            } else {
                v.reset();
            }
        } else {
            let mut v = unsafe { BitVec::from_raw_parts(words.to_vec(), len) };
            if which == 4 {
                v.push(kani::any());
            } else if which == 5 {
                let _ = v.pop();
            } else {
                kani::assume(i <= len + 3);
                v.resize(i, kani::any());
            }
            std::mem::forget(v);
        }
    }

    /// `resize` on backends with spare capacity (`with_capacity`, growth by
    /// `push`), then readers.
    #[kani::proof]
    #[kani::unwind(8)]
    pub fn bitvec_capacity_resize() {
        let mut v = BitVec::with_capacity(256);
        let n: usize = 6;
        v.resize(n, kani::any());
        let i: usize = kani::any();
        let _ = v.get(i);
        let mut it = v.iter_ones();
        let _ = it.next();
        kani::cover!(true);
        std::mem::forget(v);
    }

    /// AtomicBitVec with arbitrary indices.
    #[kani::proof]
    #[kani::unwind(8)]
    pub fn atomic_bitvec() {
        let (words, len) = any_bv();
        let aw: [AtomicUsize; N] = core::array::from_fn(|k| AtomicUsize::new(words[k]));
        let mut v = unsafe { AtomicBitVec::from_raw_parts(aw, len) };
        let which: u8 = kani::any();
        let i: usize = kani::any();
        kani::cover!(which == 2 && i >= len);
        if which == 0 {
            let _ = v.get(i, Ordering::Relaxed);
        } else if which == 1 {
            v.set(i, kani::any(), Ordering::Relaxed);
        } else if which == 2 {
            let _ = v.swap(i, kani::any(), Ordering::Relaxed);
        } else if which == 3 {
            v.fill(kani::any(), Ordering::Relaxed);
        } else if which == 4 {
            v.flip(Ordering::Relaxed);
        } else if which == 5 {
            let _ = v.count_ones();
        } else {
            let mut it = v.iter();
            let _ = it.next();
            let _ = it.next();
        }
    }

    macro_rules! bfv_safety {
        ($name:ident, $W:ty, $A:ty, $NW:expr) => {
            pub mod $name {
                use super::super::*;
                type W = $W;
                const NW: usize = $NW;
                const B: usize = <W>::BITS as usize;
                type Arr = BitFieldVec<W, [W; NW]>;

                fn any_arr() -> ([W; NW], usize, usize) {
                    let words: [W; NW] = kani::any();
                    let w: usize = kani::any();
                    kani::assume(w <= B);
                    let len: usize = kani::any();
                    kani::assume(len <= 2 * NW * B);
                    kani::assume(len * w <= NW * B);
                    (words, w, len)
                }

                /// Readers, positioned iterators and unaligned reads with
                /// arbitrary arguments.
                #[kani::proof]
                #[kani::unwind(28)]
                pub fn readers() {
                    let (words, w, len) = any_arr();
                    let v = unsafe { Arr::from_raw_parts(words, w, len) };
                    let which: u8 = kani::any();
                    let i: usize = kani::any();
                    if which == 0 {
                        let _ = v.get(i);
                    } else if which == 1 {
                        let _ = v.get_unaligned(i);
                    } else if which == 2 {
                        let mut it = v.iter_from(i);
                        let mut k = 0;
                        while k < 4 {
                            let _ = it.next();
                            k += 1;
                        }
                    } else if which == 3 {
                        let _ = (&v).into_unchecked_iter_from(i);
                    } else if which == 4 {
                        let _ = (&v).into_rev_unchecked_iter_from(i);
                    } else if which == 5 {
                        let _ = v.addr_of(i);
                    } else {
                        let (w2, bw2, l2) = any_arr();
                        let o = unsafe { Arr::from_raw_parts(w2, bw2, l2) };
                        let _ = v == o;
                    }
                    kani::cover!(which == 2 && i == len && len * w == NW * B, "iteration from the end of a full backend");
                    kani::cover!(which == 1 && i < len, "unaligned read");
                }

                /// Writers and bulk operations with arbitrary arguments.
                #[kani::proof]
                #[kani::unwind(8)]
                pub fn writers() {
                    let (words, w, len) = any_arr();
                    let mut v = unsafe { Arr::from_raw_parts(words, w, len) };
                    let which: u8 = kani::any();
                    let i: usize = kani::any();
                    let x: W = kani::any();
                    if which == 0 {
                        v.set(i, x);
                    } else if which == 1 {
                        v.reset();
                    } else if which == 2 {
                        kani::assume(len <= 5);
                        v.apply_in_place(|y| y ^ x);
                    } else if which == 3 {
                        let (w2, _, l2) = any_arr();
                        kani::assume(l2 * w <= NW * B);
                        let mut d = unsafe { Arr::from_raw_parts(w2, w, l2) };
                        let to: usize = kani::any();
                        let n: usize = kani::any();
                        kani::assume(i <= len && to <= l2);
                        v.copy(i, &mut d, to, n);
                    } else {
                        if let Ok(mut it) = v.try_chunks_mut(i) {
                            if let Some(mut c) = it.next() {
                                let j: usize = kani::any();
                                c.set(j, x);
                            }
                            let _ = it.next();
                        }
                    }
                    kani::cover!(which == 3);
                    kani::cover!(which == 4 && i > 0 && i < len);
                }

                /// The growable API from an arbitrary pre-state.
                #[kani::proof]
                #[kani::unwind(6)]
                pub fn growable() {
                    let (words, w, len) = any_arr();
                    let mut v = unsafe { BitFieldVec::<W, Vec<W>>::from_raw_parts(words.to_vec(), w, len) };
                    let which: u8 = kani::any();
                    let x: W = kani::any();
                    if which == 0 {
                        v.push(x);
                    } else if which == 1 {
                        let _ = v.pop();
                    } else {
                        v.clear();
                        let _ = v.pop();
                    }
                    std::mem::forget(v);
                    kani::cover!(which == 0);
                }
            }
        };
    }
    bfv_safety!(bfv_u8, u8, std::sync::atomic::AtomicU8, 4);
    bfv_safety!(bfv_usize, usize, std::sync::atomic::AtomicUsize, 3);
    bfv_safety!(bfv_u32, u32, std::sync::atomic::AtomicU32, 3);

    /// Zero-width and empty bit-field vectors grown through the safe API.
    #[kani::proof]
    #[kani::unwind(6)]
    pub fn bfv_with_capacity() {
        let w: usize = kani::any();
        kani::assume(w == 0 || w == 1 || w == 64);
        let mut v = BitFieldVec::<usize>::with_capacity(w, 0);
        let which: u8 = kani::any();
        let x: usize = kani::any();
        if which == 0 {
            v.push(x);
            let _ = v.get(0);
        } else if which == 1 {
            v.resize(2, x);
            let _ = v.pop();
        } else {
            let mut it = v.iter_from(0);
            let _ = it.next();
        }
        std::mem::forget(v);
        kani::cover!(which == 1 && w == 0);
    }

    /// AtomicBitFieldVec with arbitrary index and value.
    #[kani::proof]
    #[kani::unwind(6)]
    pub fn atomic_bfv() {
        let words: [usize; N] = kani::any();
        let w: usize = kani::any();
        kani::assume(w <= 64);
        let len: usize = kani::any();
        kani::assume(len <= 2 * N * 64 && len * w <= N * 64);
        let aw: [AtomicUsize; N] = core::array::from_fn(|k| AtomicUsize::new(words[k]));
        let mut v = unsafe { AtomicBitFieldVec::<usize, [AtomicUsize; N]>::from_raw_parts(aw, w, len) };
        let which: u8 = kani::any();
        let i: usize = kani::any();
        kani::cover!(which == 1 && i >= len);
        if which == 0 {
            let _ = v.get_atomic(i, Ordering::Relaxed);
        } else if which == 1 {
            v.set_atomic(i, kani::any(), Ordering::Relaxed);
        } else {
            v.reset_atomic(Ordering::Relaxed);
        }
    }

    /// Rank structures with arbitrary positions (constructors as in C01).
    #[kani::proof]
    #[kani::unwind(12)]
    pub fn rank_structures() {
        let words: [usize; 9] = kani::any();
        let which: u8 = kani::any();
        let p: usize = kani::any();
        if which == 0 {
            let r = Rank9::new(unsafe { BitVec::from_raw_parts(words, 513) });
            let _ = r.rank(p);
            let _ = r.rank_zero(p);
            let _ = r[p];
            std::mem::forget(r);
        } else if which == 1 {
            let r = Rank9::new(unsafe { BitVec::from_raw_parts(words, 576) });
            let _ = r.rank(p);
            std::mem::forget(r);
        } else if which == 2 {
            let r = RankSmall::<2, 9, _, _, _>::new(unsafe { BitVec::from_raw_parts(words, 576) });
            let _ = r.rank(p);
            std::mem::forget(r);
        } else {
            let r = RankSmall::<1, 9, _, _, _>::new(unsafe { BitVec::from_raw_parts(words, 513) });
            let _ = r.rank(p);
            let _ = r.rank_zero(p);
            std::mem::forget(r);
        }
        kani::cover!(which == 1 && p == 576);
    }

    // Rear-coded lists within C09's bounds (zero or one string, concrete block
    // size), every safe accessor with an arbitrary index / start position.
    macro_rules! rcl_safety {
        ($name:ident, $k:expr, $nonempty:expr) => {
            #[kani::proof]
            #[kani::unwind(8)]
            pub fn $name() {
                use lender::prelude::*;
                use sux::dict::RearCodedListBuilder;
                let mut b = RearCodedListBuilder::new($k);
                let bytes: [u8; 2] = kani::any();
                kani::assume(bytes[0] >= 1 && bytes[0] <= 127 && bytes[1] >= 1 && bytes[1] <= 127);
                if $nonempty {
                    b.push(unsafe { core::str::from_utf8_unchecked(&bytes) });
                }
                let l = b.build();
                let n = if $nonempty { 1 } else { 0 };
                let which: u8 = kani::any();
                let i: usize = kani::any();
                kani::cover!(which == 1 && i == n, "start position at the end");
                if which == 0 {
                    let mut out = Vec::new();
                    if i < n {
                        l.get_in_place(i, &mut out);
                    }
                    std::mem::forget(out);
                } else if which == 1 {
                    kani::assume(i <= n);
                    let it = l.iter_from(i);
                    let _ = it.len();
                    std::mem::forget(it);
                } else {
                    kani::assume(i <= n);
                    let mut it = l.lend_from(i);
                    let _ = it.next();
                    let _ = it.next();
                    std::mem::forget(it);
                }
                std::mem::forget(l);
            }
        };
    }
    rcl_safety!(rcl_empty_k2, 2, false);
    rcl_safety!(rcl_one_k1, 1, true);

    macro_rules! ef_safety {
        ($name:ident, $n:expr, $u:expr) => {
            pub mod $name {
                use super::super::*;
                const N: usize = $n;
                const U: usize = $u;
                /// Every safe query of an Elias–Fano structure with arbitrary
                /// arguments: a call outside the selection precondition of
                /// the back-end is an invalid read (efcommon.rs).
                #[kani::proof]
                #[kani::unwind(8)]
                #[kani::stub(f64::log2, log2_tab)]
                pub fn queries() {
                    let x: [usize; N] = monotone::<N>(U);
                    let mut b = EliasFanoBuilder::new(N, U);
                    let mut k = 0;
                    while k < N {
                        b.push(x[k]);
                        k += 1;
                    }
                    let ef = wit(b.build());
                    let which: u8 = kani::any();
                    let q: usize = kani::any();
                    if which == 0 {
                        let _ = ef.get(q);
                    } else if which == 1 {
                        let _ = ef.index_of(q);
                    } else if which == 2 {
                        let _ = ef.succ(q);
                    } else if which == 3 {
                        let _ = ef.succ_strict(q);
                    } else if which == 4 {
                        let _ = ef.pred(q);
                    } else if which == 5 {
                        let _ = ef.pred_strict(q);
                    } else {
                        let mut it = ef.iter_from(q);
                        let _ = it.next();
                        let _ = it.next();
                    }
                    kani::cover!(which == 4 && (U == usize::MAX || q > U), "pred above the bound");
                    kani::cover!(which == 6 && q == N, "iteration from the end");
                    std::mem::forget(ef);
                }
            }
        };
    }
    ef_safety!(ef_n0_u0, 0, 0);
    ef_safety!(ef_n1_u5, 1, 5);
    ef_safety!(ef_n3_u7, 3, 7);
    ef_safety!(ef_n4_u10, 4, 10);
    ef_safety!(ef_n2_u2p32, 2, 1 << 32);
}
