//! C09 — a rear-coded list returns exactly the strings pushed and finds them
//! by value: the part within reach (DESIGN.md §2 C09): lists of zero or one
//! string of concrete length <= 3 with symbolic bytes, block sizes 1..=3, and
//! the three kernels (variable-byte integers, string comparison, longest
//! common prefix) through hook H3. Lists of two or more strings are out of
//! reach (symbolic bytes decide the length of growing `Vec`s) and are not
//! claimed.
use crate::util::*;
use lender::prelude::*;
use sux::dict::rear_coded_list::verif as k;
use sux::dict::{RearCodedList, RearCodedListBuilder};
use sux::prelude::*;

fn ascii<const L: usize>() -> [u8; L] {
    let b: [u8; L] = kani::any();
    let mut i = 0;
    while i < L {
        kani::assume(b[i] >= 1 && b[i] <= 127);
        i += 1;
    }
    b
}

/// `index_of` with a symbolic probe: only for block size 1 -- for k >= 2 the in-block scan of
/// `index_of_sorted` makes `Vec::resize` symbolic-sized even on a one-string list (out of reach).
macro_rules! single_index_of {
    () => {
            /// Lookup by value with a symbolic probe of length <= 3.
            #[kani::proof]
            #[kani::unwind(6)]
            pub fn index_of() {
                let bytes: [u8; L] = ascii::<L>();
                let l = build(&bytes);
                let pl: usize = kani::any();
                kani::assume(pl <= 3);
                let pb: [u8; 3] = ascii::<3>();
                let probe = unsafe { core::str::from_utf8_unchecked(&pb[..pl]) };
                let same = pl == L && {
                    let mut eq = true;
                    let mut j = 0;
                    while j < L {
                        if pb[j] != bytes[j] {
                            eq = false;
                        }
                        j += 1;
                    }
                    eq
                };
                assert_eq!(l.index_of(probe), if same { Some(0) } else { None });
                assert_eq!(l.contains(probe), same);
                kani::cover!(same, "probe is the stored string");
                kani::cover!(L == 0 || (!same && pl == L), "probe of the same length, different");
                std::mem::forget(l);
            }
    };
}

macro_rules! single {
    ($name:ident, $k:expr, $len:expr) => {
        single!($name, $k, $len, {});
    };
    ($name:ident, $k:expr, $len:expr, idx) => {
        single!($name, $k, $len, { single_index_of!(); });
    };
    ($name:ident, $k:expr, $len:expr, { $($extra:tt)* }) => {
        pub mod $name {
            use super::super::*;
            const L: usize = $len;
            $($extra)*

            fn build(bytes: &[u8; L]) -> RearCodedList {
                let s = if L == 0 { "" } else { unsafe { core::str::from_utf8_unchecked(bytes) } };
                let mut b = RearCodedListBuilder::new($k);
                b.push(s);
                assert_eq!(b.len(), 1);
                b.build()
            }

            /// `len`, `get_in_place(0)`.
            #[kani::proof]
            #[kani::unwind(8)]
            pub fn get() {
                let bytes: [u8; L] = ascii::<L>();
                let l = build(&bytes);
                assert_eq!(l.len(), 1);
                let mut out = Vec::new();
                l.get_in_place(0, &mut out);
                assert!(out.len() == L);
                let i: usize = kani::any();
                if i < L {
                    assert_eq!(out[i], bytes[i]);
                }
                kani::cover!(true);
                std::mem::forget((l, out));
            }

            /// Lending iteration from the start and from every position
            /// 0..=len, with exact remaining-length hints.
            #[kani::proof]
            #[kani::unwind(8)]
            pub fn lend() {
                let bytes: [u8; L] = ascii::<L>();
                let l = build(&bytes);
                let i: usize = kani::any();
                let mut it = l.lend();
                assert_eq!(it.len(), 1);
                match it.next() {
                    Some(x) => {
                        assert!(x.len() == L);
                        if i < L {
                            assert_eq!(x.as_bytes()[i], bytes[i]);
                        }
                    }
                    None => assert!(false, "lend(): first item missing"),
                }
                assert_eq!(it.len(), 0);
                assert!(it.next().is_none());
                let mut it0 = l.lend_from(0);
                assert!(it0.next().is_some());
                assert!(it0.next().is_none());
                let mut it1 = l.lend_from(1);
                assert_eq!(it1.len(), 0);
                assert_eq!(it1.size_hint(), (0, Some(0)));
                assert!(it1.next().is_none());
                kani::cover!(true);
                std::mem::forget(l);
            }

        }
    };
}

pub mod q {
    use super::*;
    single!(single_k1_len0, 1, 0, idx);
    single!(single_k1_len2, 1, 2, idx);
    single!(single_k2_len1, 2, 1);
    single!(single_k3_len3, 3, 3);

    /// The empty list, any block size 1..=3.
    #[kani::proof]
    #[kani::unwind(8)]
    pub fn empty_list() {
        let kk: usize = kani::any();
        kani::assume(kk >= 1 && kk <= 3);
        let l = RearCodedListBuilder::new(kk).build();
        assert_eq!(l.len(), 0);
        let mut it = l.lend();
        assert_eq!(it.len(), 0);
        assert!(it.next().is_none());
        let mut it = l.lend_from(0);
        assert!(it.next().is_none());
        let mut it = l.iter();
        assert!(it.next().is_none());
        let mut it = l.iter_from(0);
        assert_eq!(it.len(), 0);
        assert!(it.next().is_none());
        let pb: [u8; 2] = ascii::<2>();
        let probe = unsafe { core::str::from_utf8_unchecked(&pb) };
        assert!(l.index_of(probe).is_none());
        assert!(!l.contains(""));
        kani::cover!(true);
        std::mem::forget(l);
    }

    /// Variable-byte integers: decode(encode(v)) = (v, rest) and
    /// encode_int_len(v) = bytes written, for every usize.
    #[kani::proof]
    #[kani::unwind(12)]
    pub fn varbyte_roundtrip() {
        let v: usize = kani::any();
        // lengths of byte strings never exceed isize::MAX (encode_int_len does not terminate above
        // 2^63 + UPPER_BOUND_8: its `max <<= 7` becomes zero)
        kani::assume(v <= isize::MAX as usize);
        let mut data: Vec<u8> = Vec::with_capacity(16);
        k::encode_int(v, &mut data);
        let n = data.len();
        assert!(n >= 1 && n <= 9);
        assert_eq!(k::encode_int_len(v), n);
        data.push(0x55);
        let (d, rest) = k::decode_int(&data);
        assert_eq!(d, v);
        assert_eq!(rest.len(), 1);
        assert_eq!(rest[0], 0x55);
        kani::cover!(n == 1);
        kani::cover!(n == 2);
        kani::cover!(n == 5);
        kani::cover!(n == 9);
        std::mem::forget(data);
    }

    fn lex(a: &[u8], b: &[u8]) -> core::cmp::Ordering {
        let mut i = 0;
        while i < 4 {
            if i >= a.len() || i >= b.len() {
                break;
            }
            if a[i] != b[i] {
                return if a[i] < b[i] { core::cmp::Ordering::Less } else { core::cmp::Ordering::Greater };
            }
            i += 1;
        }
        if a.len() < b.len() {
            core::cmp::Ordering::Less
        } else if a.len() > b.len() {
            core::cmp::Ordering::Greater
        } else {
            core::cmp::Ordering::Equal
        }
    }

    /// `longest_common_prefix(a, b)`: length of the common prefix and the
    /// lexicographic order of `a` with respect to `b`.
    #[kani::proof]
    #[kani::unwind(8)]
    pub fn lcp_kernel() {
        let a: [u8; 3] = ascii::<3>();
        let b: [u8; 3] = ascii::<3>();
        let la: usize = kani::any();
        let lb: usize = kani::any();
        kani::assume(la <= 3 && lb <= 3);
        let (n, ord) = k::longest_common_prefix(&a[..la], &b[..lb]);
        let mut exp = 0;
        let mut stop = false;
        let mut i = 0;
        while i < 3 {
            if !stop && i < la && i < lb && a[i] == b[i] {
                exp += 1;
            } else {
                stop = true;
            }
            i += 1;
        }
        assert_eq!(n, exp);
        assert_eq!(ord, lex(&a[..la], &b[..lb]));
        kani::cover!(la > lb && exp == lb, "b is a proper prefix of a");
        kani::cover!(la < lb && exp == la, "a is a proper prefix of b");
        kani::cover!(exp == 1 && la == 3 && lb == 3, "difference in the middle");
    }

    /// `strcmp(string, data)` (data NUL-terminated) is the order of `string`
    /// with respect to `data`; `strcmp_rust(string, other)` is the order of
    /// `other` with respect to `string` (the argument order each documents by
    /// its use in `index_of`).
    #[kani::proof]
    #[kani::unwind(8)]
    pub fn strcmp_kernels() {
        let a: [u8; 3] = ascii::<3>();
        let b: [u8; 3] = ascii::<3>();
        let la: usize = kani::any();
        let lb: usize = kani::any();
        kani::assume(la <= 3 && lb <= 3);
        let mut z = [0u8; 4];
        let mut i = 0;
        while i < 3 {
            if i < lb {
                z[i] = b[i];
            }
            i += 1;
        }
        let r = k::strcmp(&a[..la], &z[..lb + 1]);
        assert_eq!(r, lex(&a[..la], &b[..lb]));
        let r2 = k::strcmp_rust(&a[..la], &b[..lb]);
        assert_eq!(r2, lex(&b[..lb], &a[..la]));
        kani::cover!(la < lb && r == core::cmp::Ordering::Less);
        kani::cover!(la > lb && r == core::cmp::Ordering::Greater);
        kani::cover!(r == core::cmp::Ordering::Equal && la == 2);
    }
}

#[cfg(feature = "c09_t")]
pub mod t {
    use super::*;
    single!(single_k1_len1, 1, 1, idx);
    single!(single_k1_len3, 1, 3, idx);
    single!(single_k2_len0, 2, 0);
    single!(single_k2_len2, 2, 2);
    single!(single_k2_len3, 2, 3);
    single!(single_k3_len0, 3, 0);
    single!(single_k3_len1, 3, 1);
    single!(single_k3_len2, 3, 2);
}
