//! Shared by the Elias–Fano harness families (C03, C04, C11, C12).
use crate::util::*;
use sux::bits::BitVec;
use sux::prelude::*;

/// Witness-style selection back-end (DESIGN.md §1.4): `select` / `select_zero`
/// return *any* position that satisfies the selection specification (bit set
/// resp. clear, prefix count equal to the rank) and *assert* that the call is
/// inside the selection precondition (`rank` smaller than the number of ones
/// resp. zeros among the first `len` bits). Deciding the Elias–Fano code
/// against this back-end decides it for every back-end that meets the
/// specification.
pub struct WitSel<B> {
    pub bits: B,
    pub len: usize,
}

impl<B: AsRef<[usize]>> AsRef<[usize]> for WitSel<B> {
    fn as_ref(&self) -> &[usize] {
        self.bits.as_ref()
    }
}

fn count_below<B: AsRef<[usize]>>(s: &WitSel<B>, ones: bool) -> usize {
    let w = s.bits.as_ref();
    let mut c = 0usize;
    let mut i = 0;
    while i < w.len() {
        let lo = i * 64;
        if lo < s.len {
            let k = if s.len - lo >= 64 { 64 } else { s.len - lo };
            let word = if ones { w[i] } else { !w[i] };
            c += (word & lowmask(k)).count_ones() as usize;
        }
        i += 1;
    }
    c
}

fn witness<B: AsRef<[usize]>>(s: &WitSel<B>, rank: usize, ones: bool) -> usize {
    let w = s.bits.as_ref();
    let p: usize = kani::any();
    kani::assume(p < s.len);
    let wi = p / 64;
    let word = if ones { w[wi] } else { !w[wi] };
    kani::assume((word >> (p % 64)) & 1 == 1);
    let mut before = (word & lowmask(p % 64)).count_ones() as usize;
    let mut i = 0;
    while i < w.len() {
        if i < wi {
            before += (if ones { w[i] } else { !w[i] }).count_ones() as usize;
        }
        i += 1;
    }
    kani::assume(before == rank);
    p
}

/// Under `--prove-safety-only` (C12) panics are path ends, so a violated
/// selection precondition -- undefined behaviour with the real selection
/// structures -- is made visible as what it stands for: an invalid read.
#[cfg(feature = "c12")]
fn precondition_violated() {
    unsafe {
        let p: *const u8 = core::ptr::null();
        let _ = core::ptr::read_volatile(p);
    }
}
#[cfg(not(feature = "c12"))]
fn precondition_violated() {}

impl<B: AsRef<[usize]>> SelectUnchecked for WitSel<B> {
    unsafe fn select_unchecked(&self, rank: usize) -> usize {
        if rank >= count_below(self, true) {
            precondition_violated();
        }
        assert!(rank < count_below(self, true), "select_unchecked called with rank >= number of ones (selection precondition)");
        witness(self, rank, true)
    }
}

impl<B: AsRef<[usize]>> SelectZeroUnchecked for WitSel<B> {
    unsafe fn select_zero_unchecked(&self, rank: usize) -> usize {
        if rank >= count_below(self, false) {
            precondition_violated();
        }
        assert!(rank < count_below(self, false), "select_zero_unchecked called with rank >= number of zeros (selection precondition)");
        witness(self, rank, false)
    }
}

pub type Ef = sux::dict::EliasFano<WitSel<BitVec<Box<[usize]>>>>;

/// Wraps the high bits of a freshly built structure in the witness selector.
pub fn wit(ef: sux::dict::EliasFano) -> Ef {
    unsafe {
        ef.map_high_bits(|h| {
            let len = h.len();
            WitSel { bits: h, len }
        })
    }
}

/// `N` symbolic values, non-decreasing and bounded by `u`.
pub fn monotone<const N: usize>(u: usize) -> [usize; N] {
    let x: [usize; N] = kani::any();
    let mut k = 0;
    while k < N {
        if k + 1 < N {
            kani::assume(x[k] <= x[k + 1]);
        }
        kani::assume(x[k] <= u);
        k += 1;
    }
    x
}
