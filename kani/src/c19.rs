//! C19 — the dense GF(2) solver returns a satisfying assignment exactly when
//! one exists (DESIGN.md §2 C19: `lazy_gaussian_elimination` is out of reach
//! and not claimed).
//!
//! One harness per concrete *shape* (number of variables, the non-empty
//! strictly increasing variable list of each equation); the constant of each
//! equation is a symbolic `u8` (eight independent GF(2) systems per query).
//! `Ok(s)` must satisfy the original system; for a *symbolic witness* `t`,
//! `check(t)` implies `Ok` -- universally quantified over `t`, this is
//! "solvable implies Ok" without enumerating assignments.
use sux::utils::mod2_sys::{Modulo2Equation, Modulo2System};

fn no_backtrace() -> std::backtrace::Backtrace {
    std::backtrace::Backtrace::disabled()
}

fn run<const E: usize, const V: usize>(shape: [&[u32]; E]) {
    let c: [u8; E] = kani::any();
    let mut sys = Modulo2System::<u8>::new(V);
    let mut orig = Modulo2System::<u8>::new(V);
    let mut k = 0;
    while k < E {
        sys.push(unsafe { Modulo2Equation::from_parts(shape[k].to_vec(), c[k]) });
        orig.push(unsafe { Modulo2Equation::from_parts(shape[k].to_vec(), c[k]) });
        k += 1;
    }
    let t: [u8; V] = kani::any();
    let witness_ok = orig.check(&t);
    match sys.gaussian_elimination() {
        Ok(s) => {
            assert!(s.len() == V);
            assert!(orig.check(&s), "Ok(s) with an assignment that violates an equation");
            kani::cover!(true, "solved");
            std::mem::forget(s);
        }
        Err(e) => {
            assert!(!witness_ok, "error although a satisfying assignment exists");
            kani::cover!(true, "reported unsolvable");
            std::mem::forget(e);
        }
    }
    std::mem::forget((sys, orig));
}

macro_rules! ge {
    ($name:ident, $v:expr, $unw:literal, [$($eq:expr),+ $(,)?]) => {
        #[kani::proof]
        #[kani::unwind($unw)]
        #[kani::stub(std::backtrace::Backtrace::capture, no_backtrace)]
        #[kani::stub(alloc::fmt::format, crate::util::no_format)]
        pub fn $name() {
            run::<{ [$(stringify!($eq)),+].len() }, $v>([$(&$eq[..]),+]);
        }
    };
}

/// Harnesses whose system is solvable for every constant only have the
/// "solved" witness; the driver requires every cover it finds SATISFIED, so
/// those shapes live in their own macro with a single cover.
fn run_always_solvable<const E: usize, const V: usize>(shape: [&[u32]; E]) {
    let c: [u8; E] = kani::any();
    let mut sys = Modulo2System::<u8>::new(V);
    let mut orig = Modulo2System::<u8>::new(V);
    let mut k = 0;
    while k < E {
        sys.push(unsafe { Modulo2Equation::from_parts(shape[k].to_vec(), c[k]) });
        orig.push(unsafe { Modulo2Equation::from_parts(shape[k].to_vec(), c[k]) });
        k += 1;
    }
    match sys.gaussian_elimination() {
        Ok(s) => {
            assert!(orig.check(&s), "Ok(s) with an assignment that violates an equation");
            kani::cover!(true, "solved");
            std::mem::forget(s);
        }
        Err(e) => {
            assert!(false, "error on a system that is solvable for every constant");
            std::mem::forget(e);
        }
    }
    std::mem::forget((sys, orig));
}

macro_rules! ge_full_rank {
    ($name:ident, $v:expr, $unw:literal, [$($eq:expr),+ $(,)?]) => {
        #[kani::proof]
        #[kani::unwind($unw)]
        #[kani::stub(std::backtrace::Backtrace::capture, no_backtrace)]
        #[kani::stub(alloc::fmt::format, crate::util::no_format)]
        pub fn $name() {
            run_always_solvable::<{ [$(stringify!($eq)),+].len() }, $v>([$(&$eq[..]),+]);
        }
    };
}

/// Consistent-by-construction systems: the constant of every equation is the value of its left-hand
/// side under a symbolic assignment `t` (so the system is solvable for every `t`, with `t` a
/// witness); the solver must return `Ok(s)` with `check(s)`. Because the constants are built
/// syntactically from `t`, rows that cancel reduce to a constant the symbolic-execution simplifier
/// folds to zero. (Tried as a way to reach three and four equations: those shapes still exhaust 16 GB;
/// kept for the two-equation shapes, where it states 'solvable implies Ok(s) and check(s)' directly.)
fn run_consistent<const E: usize, const V: usize>(shape: [&[u32]; E]) {
    let t: [u8; V] = kani::any();
    let mut sys = Modulo2System::<u8>::new(V);
    let mut orig = Modulo2System::<u8>::new(V);
    let mut k = 0;
    while k < E {
        let mut c = 0u8;
        let mut j = 0;
        while j < shape[k].len() {
            c ^= t[shape[k][j] as usize];
            j += 1;
        }
        sys.push(unsafe { Modulo2Equation::from_parts(shape[k].to_vec(), c) });
        orig.push(unsafe { Modulo2Equation::from_parts(shape[k].to_vec(), c) });
        k += 1;
    }
    match sys.gaussian_elimination() {
        Ok(s) => {
            assert!(orig.check(&s), "Ok(s) with an assignment that violates an equation");
            kani::cover!(true, "solved");
            std::mem::forget(s);
        }
        Err(e) => {
            assert!(false, "error on a system that has a solution by construction");
            std::mem::forget(e);
        }
    }
    std::mem::forget((sys, orig));
}

macro_rules! ge_consistent {
    ($name:ident, $v:expr, $unw:literal, [$($eq:expr),+ $(,)?]) => {
        #[kani::proof]
        #[kani::unwind($unw)]
        #[kani::stub(std::backtrace::Backtrace::capture, no_backtrace)]
        #[kani::stub(alloc::fmt::format, crate::util::no_format)]
        pub fn $name() {
            run_consistent::<{ [$(stringify!($eq)),+].len() }, $v>([$(&$eq[..]),+]);
        }
    };
}

pub mod q {
    use super::*;
    // consistent-by-construction variants of shapes with a repeated row
    ge_consistent!(cons_e2_repeated_row, 2, 6, [[0u32, 1], [0u32, 1]]);
    ge_consistent!(cons_e2_same_single, 1, 4, [[0u32], [0u32]]);
    // one equation
    ge_full_rank!(e1_x0, 1, 4, [[0u32]]);
    ge_full_rank!(e1_x0x1_unused_x2, 3, 6, [[0u32, 1]]);
    // two equations: independent, dependent (repeated row), contradictory
    ge_full_rank!(e2_triangular, 2, 6, [[0u32, 1], [0u32]]);
    ge!(e2_repeated_row, 2, 6, [[0u32, 1], [0u32, 1]]);
    ge!(e2_same_single, 1, 4, [[0u32], [0u32]]);
    ge_full_rank!(e2_disjoint, 3, 6, [[0u32], [1u32, 2]]);
    ge_full_rank!(e2_swap_needed, 2, 6, [[1u32], [0u32, 1]]);
}

/// Shapes with three and four equations: written, measured, and NOT part of any tier -- every one of
/// them exhausts the 16 GB cap (three equations: also 44 GB; four equations: 44 GB), because the
/// data-dependent `continue 'main` / `bail!` make the loop counters symbolic once CBMC merges the states
/// (DESIGN.md §7.2). Kept so that the measurement can be repeated (`--features c19_x`).
#[cfg(feature = "c19_x")]
pub mod x {
    use super::*;
    // three equations
    ge!(e3_dependent_sum, 3, 6, [[0u32, 1], [1u32, 2], [0u32, 2]]);
    ge_full_rank!(e3_full_rank, 3, 8, [[0u32, 1, 2], [1u32, 2], [2u32]]);
    ge!(e3_repeated_then_more, 3, 6, [[0u32, 1], [0u32, 1], [1u32, 2]]);
    ge!(e3_overdetermined, 2, 6, [[0u32], [1u32], [0u32, 1]]);
    ge!(e3_all_same, 2, 6, [[0u32, 1], [0u32, 1], [0u32, 1]]);
    ge!(e3_reverse_order, 3, 8, [[2u32], [1u32, 2], [0u32, 1, 2], ]);
    ge!(e3_two_pairs, 3, 6, [[0u32, 2], [0u32, 2], [1u32]]);
    // four equations: a redundant pair followed by rows that still need elimination
    ge!(e4_redundant_then_chain, 4, 6, [[0u32, 1], [0u32, 1], [1u32, 2], [1u32, 3]]);
    ge!(e4_redundant_then_contradiction, 3, 6, [[0u32, 1], [0u32, 1], [1u32, 2], [1u32, 2]]);
    ge!(e4_cycle, 4, 6, [[0u32, 1], [1u32, 2], [2u32, 3], [0u32, 3]]);
    ge_full_rank!(e4_full_rank, 4, 10, [[0u32, 1, 2, 3], [1u32, 3], [2u32, 3], [3u32]]);
}
