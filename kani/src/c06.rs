//! C06 — BitVec is observationally a Vec<bool>.
//!
//! Same scheme as C05: arbitrary `from_raw_parts` pre-state over 3 fully
//! symbolic words (so every stale-tail state is inside), one operation,
//! compare abstractions.
use crate::util::*;
use std::sync::atomic::{AtomicUsize, Ordering};
use sux::bits::{AtomicBitVec, BitVec};
use sux::prelude::*;

const N: usize = 3;

fn any_bv() -> ([usize; N], usize) {
    let words: [usize; N] = kani::any();
    let len: usize = kani::any();
    kani::assume(len <= 64 * N);
    (words, len)
}

pub mod q {
    use super::*;

    /// `get` / `Index` / `len` against the raw bits.
    #[kani::proof]
    #[kani::unwind(5)]
    pub fn get_ref() {
        let (words, len) = any_bv();
        let v = unsafe { BitVec::from_raw_parts(words, len) };
        let i: usize = kani::any();
        kani::assume(i < len);
        assert_eq!(v.get(i), bit(&words, i));
        assert_eq!(v[i], bit(&words, i));
        assert_eq!(v.len(), len);
        assert_eq!(BitLength::len(&v), len);
        kani::cover!(i >= 128);
    }

    /// `set(i, b)`: bit i reads b, every other bit is unchanged.
    #[kani::proof]
    #[kani::unwind(5)]
    pub fn set_step() {
        let (words, len) = any_bv();
        let mut v = unsafe { BitVec::from_raw_parts(words, len) };
        let i: usize = kani::any();
        let j: usize = kani::any();
        kani::assume(i < len && j < len && i != j);
        let b: bool = kani::any();
        v.set(i, b);
        assert_eq!(v.get(i), b);
        assert_eq!(v.get(j), bit(&words, j));
        assert_eq!(v.len(), len);
        kani::cover!(i / 64 == j / 64, "neighbour in the same word");
    }

    /// `push(b)` from an arbitrary Vec-backed pre-state (stale bits beyond
    /// `len` included).
    #[kani::proof]
    #[kani::unwind(5)]
    pub fn push_step() {
        let (words, len) = any_bv();
        let mut v = unsafe { BitVec::from_raw_parts(words.to_vec(), len) };
        let b: bool = kani::any();
        v.push(b);
        assert_eq!(v.len(), len + 1);
        assert_eq!(v.get(len), b);
        let j: usize = kani::any();
        kani::assume(j < len);
        assert_eq!(v.get(j), bit(&words, j));
        kani::cover!(len == 64 * N, "push grows the backend");
        kani::cover!(len % 64 == 63, "push fills a word");
        std::mem::forget(v);
    }

    /// `pop()`.
    #[kani::proof]
    #[kani::unwind(5)]
    pub fn pop_step() {
        let (words, len) = any_bv();
        let mut v = unsafe { BitVec::from_raw_parts(words.to_vec(), len) };
        let r = v.pop();
        if len == 0 {
            assert!(r.is_none());
            assert_eq!(v.len(), 0);
        } else {
            assert_eq!(r, Some(bit(&words, len - 1)));
            assert_eq!(v.len(), len - 1);
            let j: usize = kani::any();
            kani::assume(j < len - 1);
            assert_eq!(v.get(j), bit(&words, j));
        }
        kani::cover!(len == 0);
        kani::cover!(len == 65);
        std::mem::forget(v);
    }

    // `resize` inside the backend, concrete (len, new_len) pairs with symbolic
    // words and value (the symbolic-length version exhausts 16 GB: a symbolic
    // new length makes `Vec::resize` symbolic-sized): truncation keeps a
    // prefix, growth overwrites stale bits with the value.
    macro_rules! resize_case {
        ($name:ident, $len:expr, $new:expr) => {
            #[kani::proof]
            #[kani::unwind(8)]
            pub fn $name() {
                const LEN: usize = $len;
                const NEW: usize = $new;
                let words: [usize; N] = kani::any();
                let mut v = unsafe { BitVec::from_raw_parts(words.to_vec(), LEN) };
                let b: bool = kani::any();
                v.resize(NEW, b);
                assert_eq!(v.len(), NEW);
                let j: usize = kani::any();
                if j < NEW {
                    if j < LEN {
                        assert_eq!(v.get(j), bit(&words, j));
                    } else {
                        assert_eq!(v.get(j), b);
                    }
                }
                // truncate-then-grow: stale bits must not resurface
                v.resize(LEN.min(NEW), !b);
                v.resize(LEN.min(NEW) + 2, b);
                assert_eq!(v.pop(), Some(b));
                assert_eq!(v.pop(), Some(b));
                kani::cover!(true);
                std::mem::forget(v);
            }
        };
    }
    resize_case!(resize_62_66, 62, 66);
    resize_case!(resize_0_3, 0, 3);
    resize_case!(resize_186_190, 186, 190);
    resize_case!(resize_130_63, 130, 63);
    resize_case!(resize_64_64, 64, 64);
    resize_case!(resize_5_0, 5, 0);

    /// `resize` that grows the backend (concrete shape: full three words to
    /// 195 bits).
    #[kani::proof]
    #[kani::unwind(6)]
    pub fn resize_grow() {
        let words: [usize; N] = kani::any();
        let mut v = unsafe { BitVec::from_raw_parts(words.to_vec(), 64 * N) };
        let b: bool = kani::any();
        v.resize(64 * N + 3, b);
        assert_eq!(v.len(), 64 * N + 3);
        let j: usize = kani::any();
        kani::assume(j < 64 * N + 3);
        if j < 64 * N {
            assert_eq!(v.get(j), bit(&words, j));
        } else {
            assert_eq!(v.get(j), b);
        }
        kani::cover!(true);
        std::mem::forget(v);
    }

    macro_rules! ctor {
        ($name:ident, $len:expr) => {
            /// `new` / `with_value` / `with_capacity` at a concrete length.
            #[kani::proof]
            #[kani::unwind(6)]
            pub fn $name() {
                const LEN: usize = $len;
                let b: bool = kani::any();
                let v = BitVec::with_value(LEN, b);
                assert_eq!(v.len(), LEN);
                let i: usize = kani::any();
                kani::assume(i < LEN);
                assert_eq!(v.get(i), b);
                assert_eq!(v.count_ones(), if b { LEN } else { 0 });
                let z = BitVec::new(LEN);
                assert_eq!(z.len(), LEN);
                assert_eq!(z.get(i), false);
                let c = BitVec::with_capacity(LEN);
                assert_eq!(c.len(), 0);
                assert!(c.capacity() >= LEN);
                let mut c = c;
                c.push(b);
                assert_eq!(c.get(0), b);
                let a = AtomicBitVec::with_value(LEN, b);
                assert_eq!(a.len(), LEN);
                assert_eq!(a.get(i, Ordering::Relaxed), b);
                assert_eq!(a.count_ones(), if b { LEN } else { 0 });
                kani::cover!(true);
                std::mem::forget((v, z, c, a));
            }
        };
    }
    ctor!(ctor_len1, 1);
    ctor!(ctor_len63, 63);
    ctor!(ctor_len64, 64);
    ctor!(ctor_len65, 65);
    ctor!(ctor_len128, 128);

    /// Growth by `resize` of a vector created by `with_capacity` (backend with
    /// spare *capacity* but no words yet) and of one grown by `push`.
    #[kani::proof]
    #[kani::unwind(70)]
    pub fn with_capacity_resize() {
        let b: bool = kani::any();
        let mut v = BitVec::with_capacity(256);
        v.resize(5, b);
        assert_eq!(v.len(), 5);
        let i: usize = kani::any();
        kani::assume(i < 5);
        assert_eq!(v.get(i), b);
        assert_eq!(v.count_ones(), if b { 5 } else { 0 });
        let mut w = BitVec::with_capacity(192);
        w.push(!b);
        w.resize(66, b);
        assert_eq!(w.get(0), !b);
        assert_eq!(w.get(65), b);
        let r: &[usize] = w.as_ref();
        assert!(r.len() * 64 >= 66);
        kani::cover!(true);
        std::mem::forget((v, w));
    }

    /// Zero-length constructors and their iterators.
    #[kani::proof]
    #[kani::unwind(4)]
    pub fn ctor_len0() {
        let v = BitVec::new(0);
        assert_eq!(v.len(), 0);
        assert_eq!(v.count_ones(), 0);
        assert!(v.iter().next().is_none());
        assert!(v.iter_ones().next().is_none());
        assert!(v.iter_zeros().next().is_none());
        let w = BitVec::with_value(0, true);
        assert!(w.iter_ones().next().is_none());
        assert!(v == w);
        let mut v = v;
        assert!(v.pop().is_none());
        v.push(true);
        assert_eq!(v.get(0), true);
        kani::cover!(true);
        std::mem::forget((v, w));
    }

    /// `extend`, `collect` and the `bit_vec!` forms.
    #[kani::proof]
    #[kani::unwind(8)]
    pub fn extend_collect_macro() {
        let words: [usize; N] = kani::any();
        let len = 62;
        let mut v = unsafe { BitVec::from_raw_parts(words.to_vec(), len) };
        let x: [bool; 3] = kani::any();
        v.extend(x);
        assert_eq!(v.len(), len + 3);
        let k: usize = kani::any();
        kani::assume(k < 3);
        assert_eq!(v.get(len + k), x[k]);
        let j: usize = kani::any();
        kani::assume(j < len);
        assert_eq!(v.get(j), bit(&words, j));
        let c: BitVec = x.into_iter().collect();
        assert_eq!(c.len(), 3);
        assert_eq!(c.get(k), x[k]);
        let m = sux::bit_vec![x[0] as usize, x[1] as usize, x[2] as usize];
        assert_eq!(m.len(), 3);
        assert_eq!(m.get(k), x[k]);
        let r = sux::bit_vec![true; 5];
        assert_eq!(r.len(), 5);
        assert_eq!(r.get(k + 2), true);
        let r0 = sux::bit_vec![0; 5];
        assert_eq!(r0.get(k + 2), false);
        std::mem::forget(r0);
        let e = sux::bit_vec![];
        assert_eq!(e.len(), 0);
        kani::cover!(true);
        std::mem::forget((v, c, m, r, e));
    }

    /// `iter()`: the first four items from the start.
    #[kani::proof]
    #[kani::unwind(6)]
    pub fn iter_prefix() {
        let (words, len) = any_bv();
        let v = unsafe { BitVec::from_raw_parts(words, len) };
        let mut it = v.iter();
        let mut s = 0;
        while s < 4 {
            let r = it.next();
            if s < len {
                assert_eq!(r, Some(bit(&words, s)));
            } else {
                assert!(r.is_none());
            }
            s += 1;
        }
        kani::cover!(len == 2);
        kani::cover!(len > 100);
    }

    /// `iter()` on vectors of at most 8 bits: all items, then `None` twice.
    #[kani::proof]
    #[kani::unwind(12)]
    pub fn iter_all_short() {
        let (words, len) = any_bv();
        kani::assume(len <= 8);
        let v = unsafe { BitVec::from_raw_parts(words, len) };
        let mut it = (&v).into_iter();
        let mut s = 0;
        while s < 10 {
            let r = it.next();
            if s < len {
                assert_eq!(r, Some(bit(&words, s)));
            } else {
                assert!(r.is_none());
            }
            s += 1;
        }
        kani::cover!(len == 8);
    }

    /// `iter_ones()`: the first three calls return the ones of rank 0, 1, 2
    /// below `len` (select specification), `None` exactly when fewer exist,
    /// and a call after `None` is still `None`.
    #[kani::proof]
    #[kani::unwind(6)]
    pub fn iter_ones_prefix() {
        let (words, len) = any_bv();
        let v = unsafe { BitVec::from_raw_parts(words, len) };
        let total = ones_before(&words, len);
        let mut it = v.iter_ones();
        let mut r = 0;
        let mut ended = false;
        while r < 3 {
            match it.next() {
                Some(p) => {
                    assert!(!ended);
                    assert!(p < len);
                    assert!(bit(&words, p));
                    assert_eq!(ones_before(&words, p), r);
                }
                None => {
                    assert!(total <= r);
                    ended = true;
                }
            }
            r += 1;
        }
        if total <= 2 {
            assert!(it.next().is_none());
        }
        kani::cover!(total >= 3 && len > 128, "three ones found");
        kani::cover!(total == 1 && len > 64, "ends after one");
        kani::cover!(total == 0 && len == 64 * N, "no ones at all");
    }

    /// `iter_zeros()`, same specification on the complement.
    #[kani::proof]
    #[kani::unwind(6)]
    pub fn iter_zeros_prefix() {
        let (words, len) = any_bv();
        let v = unsafe { BitVec::from_raw_parts(words, len) };
        let total = len - ones_before(&words, len);
        let mut it = v.iter_zeros();
        let mut r = 0;
        let mut ended = false;
        while r < 3 {
            match it.next() {
                Some(p) => {
                    assert!(!ended);
                    assert!(p < len);
                    assert!(!bit(&words, p));
                    assert_eq!(p - ones_before(&words, p), r);
                }
                None => {
                    assert!(total <= r);
                    ended = true;
                }
            }
            r += 1;
        }
        if total <= 2 {
            assert!(it.next().is_none());
        }
        kani::cover!(total >= 3 && len > 128, "three zeros found");
        kani::cover!(total == 1 && len > 64, "ends after one");
        kani::cover!(total == 0 && len == 64 * N, "no zeros at all");
    }

    /// Iterators over a backend with fewer words than three (one word, and
    /// spare trailing words).
    #[kani::proof]
    #[kani::unwind(6)]
    pub fn iter_ones_one_word() {
        let words: [usize; 1] = kani::any();
        let len: usize = kani::any();
        kani::assume(len <= 64);
        let v = unsafe { BitVec::from_raw_parts(words, len) };
        let total = ones_before(&words, len);
        let mut it = v.iter_ones();
        let mut r = 0;
        while r < 2 {
            match it.next() {
                Some(p) => {
                    assert!(p < len && bit(&words, p));
                    assert_eq!(ones_before(&words, p), r);
                }
                None => assert!(total <= r),
            }
            r += 1;
        }
        if total <= 1 {
            assert!(it.next().is_none());
            assert!(it.next().is_none());
        }
        kani::cover!(total == 0);
        kani::cover!(total >= 2);
    }

    /// Equality: equal vectors have equal bits; differing in length or in one
    /// bit makes them different.
    #[kani::proof]
    #[kani::unwind(26)]
    pub fn eq_sound_complete() {
        let (words, len) = any_bv();
        let (words2, len2) = any_bv();
        let a = unsafe { BitVec::from_raw_parts(words, len) };
        let b = unsafe { BitVec::from_raw_parts(words2, len2) };
        if a == b {
            assert_eq!(len, len2);
            let i: usize = kani::any();
            kani::assume(i < len);
            assert_eq!(bit(&words, i), bit(&words2, i));
        }
        let mut c = unsafe { BitVec::from_raw_parts(words, len) };
        assert!(a == c);
        let i: usize = kani::any();
        kani::assume(i < len);
        c.set(i, !bit(&words, i));
        assert!(a != c);
        assert!(c != a);
        kani::cover!(a == b && len > 70);
        kani::cover!(a != b && len == len2);
    }

    /// Equality is observational: vectors with the same length and bits are
    /// equal whatever their histories left beyond `len` (stale bits after
    /// pop / resize, spare words).
    #[kani::proof]
    #[kani::unwind(26)]
    pub fn eq_ignores_stale() {
        let (a, len) = any_bv();
        let b: [usize; N] = kani::any();
        let mut k = 0;
        while k < N {
            if 64 * k >= len {
                // unrelated storage
            } else if len - 64 * k < 64 {
                let m = lowmask(len - 64 * k);
                kani::assume(a[k] & m == b[k] & m);
            } else {
                kani::assume(a[k] == b[k]);
            }
            k += 1;
        }
        let x = unsafe { BitVec::from_raw_parts(a, len) };
        let y = unsafe { BitVec::from_raw_parts(b, len) };
        assert!(x == y);
        assert!(y == x);
        kani::cover!(len % 64 != 0 && len > 64 && ((a[len / 64] ^ b[len / 64]) >> (len % 64)) & 1 == 1, "the bit at position len differs");
        kani::cover!(len < 64 && a[2] != b[2], "spare words differ");
    }

    /// `to_owned` and the Vec / Box / atomic conversions keep the contents.
    #[kani::proof]
    #[kani::unwind(26)]
    pub fn to_owned_conversions() {
        let (words, len) = any_bv();
        let i: usize = kani::any();
        kani::assume(i < len);
        let e = bit(&words, i);
        let v = unsafe { BitVec::from_raw_parts(words, len) };
        let o = v.to_owned();
        assert_eq!(o.len(), len);
        assert_eq!(o.get(i), e);
        assert!(o == v);
        let b: BitVec<Box<[usize]>> = o.into();
        assert_eq!(b.get(i), e);
        let ab: AtomicBitVec<Box<[AtomicUsize]>> = b.into();
        assert_eq!(ab.get(i, Ordering::Relaxed), e);
        let b: BitVec<Box<[usize]>> = ab.into();
        let o: BitVec<Vec<usize>> = b.into();
        let av: AtomicBitVec<Vec<AtomicUsize>> = o.into();
        assert_eq!(av.get(i, Ordering::Relaxed), e);
        assert_eq!(av.len(), len);
        let o: BitVec<Vec<usize>> = av.into();
        assert_eq!(o.get(i), e);
        let (raw, l2) = o.into_raw_parts();
        assert!(l2 == len && raw.len() == N);
        let r = unsafe { BitVec::from_raw_parts(&words[..], len) };
        let ar: AtomicBitVec<&[AtomicUsize]> = r.into();
        assert_eq!(ar.get(i, Ordering::Relaxed), e);
        let r: BitVec<&[usize]> = ar.into();
        assert_eq!(r.get(i), e);
        kani::cover!(len > 128);
        std::mem::forget(raw);
    }

    /// Single-threaded `AtomicBitVec`: get / set / swap step, iteration.
    #[kani::proof]
    #[kani::unwind(6)]
    pub fn atomic_step() {
        let (words, len) = any_bv();
        let aw: [AtomicUsize; N] = core::array::from_fn(|k| AtomicUsize::new(words[k]));
        let mut v = unsafe { AtomicBitVec::from_raw_parts(aw, len) };
        let i: usize = kani::any();
        let j: usize = kani::any();
        kani::assume(i < len && j < len && i != j);
        assert_eq!(v.get(i, Ordering::Relaxed), bit(&words, i));
        assert_eq!(v[i], bit(&words, i));
        let b: bool = kani::any();
        v.set(i, b, Ordering::Relaxed);
        assert_eq!(v.get(i, Ordering::Relaxed), b);
        assert_eq!(v.get(j, Ordering::Relaxed), bit(&words, j));
        let c: bool = kani::any();
        assert_eq!(v.swap(i, c, Ordering::Relaxed), b);
        assert_eq!(v.get(i, Ordering::Relaxed), c);
        assert_eq!(v.get(j, Ordering::Relaxed), bit(&words, j));
        let mut it = v.iter();
        let first = it.next();
        assert_eq!(first, Some(if i == 0 { c } else { bit(&words, 0) }));
        kani::cover!(i / 64 == j / 64);
    }

    /// `count_ones` / `count_zeros` of `AtomicBitVec` agree with `BitVec`'s.
    #[kani::proof]
    #[kani::unwind(5)]
    pub fn atomic_count_agrees() {
        let (words, len) = any_bv();
        let aw: [AtomicUsize; N] = core::array::from_fn(|k| AtomicUsize::new(words[k]));
        let a = unsafe { AtomicBitVec::from_raw_parts(aw, len) };
        let v = unsafe { BitVec::from_raw_parts(words, len) };
        assert_eq!(a.count_ones(), v.count_ones());
        assert_eq!(a.count_zeros(), len - v.count_ones());
        kani::cover!(len % 64 != 0 && len > 64);
    }

    // ---- rejections -------------------------------------------------
    #[kani::proof]
    #[kani::unwind(5)]
    #[kani::should_panic]
    pub fn reject_get() {
        let (words, len) = any_bv();
        let v = unsafe { BitVec::from_raw_parts(words, len) };
        let i: usize = kani::any();
        kani::assume(i >= len);
        let _ = v.get(i);
        kani::cover!(true, "returned normally");
    }

    #[kani::proof]
    #[kani::unwind(5)]
    #[kani::should_panic]
    pub fn reject_set() {
        let (words, len) = any_bv();
        let mut v = unsafe { BitVec::from_raw_parts(words, len) };
        let i: usize = kani::any();
        kani::assume(i >= len);
        v.set(i, true);
        kani::cover!(true, "returned normally");
    }

    #[kani::proof]
    #[kani::unwind(5)]
    #[kani::should_panic]
    pub fn reject_atomic() {
        let (words, len) = any_bv();
        let aw: [AtomicUsize; N] = core::array::from_fn(|k| AtomicUsize::new(words[k]));
        let v = unsafe { AtomicBitVec::from_raw_parts(aw, len) };
        let i: usize = kani::any();
        kani::assume(i >= len);
        let which: u8 = kani::any();
        if which == 0 {
            let _ = v.get(i, Ordering::Relaxed);
        } else if which == 1 {
            v.set(i, true, Ordering::Relaxed);
        } else {
            let _ = v.swap(i, false, Ordering::Relaxed);
        }
        kani::cover!(true, "returned normally");
    }

    // ---- count_ones: residual family (DESIGN.md §1.2) ------------------
    // One harness per residual r = len % 64; len = 64 m + r, m in 0..=2
    // symbolic (r = 0: m in 0..=3). Quick runs 8 of the 64 residuals, chosen
    // by VERIF_SEED; thorough runs all.
    macro_rules! count_res {
        ($($name:ident $r:expr;)*) => {$(
            #[kani::proof]
            #[kani::unwind(5)]
            pub fn $name() {
                const R: usize = $r;
                let words: [usize; N] = kani::any();
                let m: usize = kani::any();
                kani::assume(m <= N && 64 * m + R <= 64 * N);
                let len = 64 * m + R;
                let v = unsafe { BitVec::from_raw_parts(words, len) };
                let mut exp = 0usize;
                let mut k = 0;
                while k < N {
                    if k < m {
                        exp += words[k].count_ones() as usize;
                    } else if k == m && R > 0 {
                        exp += (words[k] & ((1usize << R) - 1)).count_ones() as usize;
                    }
                    k += 1;
                }
                assert_eq!(v.count_ones(), exp);
                assert_eq!(v.count_zeros(), len - exp);
                kani::cover!(m == 2 || R == 0);
            }
        )*};
    }
    pub mod rot0of8_count {
        use super::*;
        count_res! { r0 0; r8 8; r16 16; r24 24; r32 32; r40 40; r48 48; r56 56; }
    }
    pub mod rot1of8_count {
        use super::*;
        count_res! { r1 1; r9 9; r17 17; r25 25; r33 33; r41 41; r49 49; r57 57; }
    }
    pub mod rot2of8_count {
        use super::*;
        count_res! { r2 2; r10 10; r18 18; r26 26; r34 34; r42 42; r50 50; r58 58; }
    }
    pub mod rot3of8_count {
        use super::*;
        count_res! { r3 3; r11 11; r19 19; r27 27; r35 35; r43 43; r51 51; r59 59; }
    }
    pub mod rot4of8_count {
        use super::*;
        count_res! { r4 4; r12 12; r20 20; r28 28; r36 36; r44 44; r52 52; r60 60; }
    }
    pub mod rot5of8_count {
        use super::*;
        count_res! { r5 5; r13 13; r21 21; r29 29; r37 37; r45 45; r53 53; r61 61; }
    }
    pub mod rot6of8_count {
        use super::*;
        count_res! { r6 6; r14 14; r22 22; r30 30; r38 38; r46 46; r54 54; r62 62; }
    }
    pub mod rot7of8_count {
        use super::*;
        count_res! { r7 7; r15 15; r23 23; r31 31; r39 39; r47 47; r55 55; r63 63; }
    }
}
