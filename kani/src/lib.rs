//! Kani proof harnesses over the real code of /repo (DESIGN.md, engine E1).
//! One module per property; module `q` = quick tier, `t` = thorough tier,
//! suffix `s` = run with --prove-safety-only, suffix `n` = only in the
//! flavour with debug assertions off.
#![allow(unused)]
#![cfg(kani)]
extern crate alloc;
pub mod util;
#[cfg(any(feature = "c03", feature = "c04", feature = "c11", feature = "c12"))]
pub mod ef_grid;
#[cfg(any(feature = "c03", feature = "c04", feature = "c11", feature = "c12"))]
pub mod efcommon;
#[cfg(any(feature = "c03", feature = "c04"))]
pub mod efstate;
#[cfg(feature = "c01")]
pub mod c01;
#[cfg(feature = "c02")]
pub mod c02;
#[cfg(feature = "c03")]
pub mod c03;
#[cfg(feature = "c04")]
pub mod c04;
#[cfg(feature = "c05")]
pub mod c05;
#[cfg(feature = "c06")]
pub mod c06;
#[cfg(feature = "c09")]
pub mod c09;
#[cfg(feature = "c10")]
pub mod c10;
#[cfg(feature = "c11")]
pub mod c11;
#[cfg(feature = "c12")]
pub mod c12;
#[cfg(feature = "c13")]
pub mod c13;
#[cfg(feature = "c14")]
pub mod c14;
#[cfg(feature = "c19")]
pub mod c19;

/// One marker harness per cargo feature, so that the driver can tell which
/// kani-metadata.json belongs to which feature set.
pub mod feature_marker {
    #[cfg(feature = "none")]
    #[kani::proof]
    pub fn none() {}
    #[cfg(all(feature = "c01", not(feature = "c01_t")))]
    #[kani::proof]
    pub fn c01() {}
    #[cfg(feature = "c01_t")]
    #[kani::proof]
    pub fn c01_t() {}
    #[cfg(all(feature = "c02", not(feature = "c02_t")))]
    #[kani::proof]
    pub fn c02() {}
    #[cfg(feature = "c02_t")]
    #[kani::proof]
    pub fn c02_t() {}
    #[cfg(all(feature = "c03", not(feature = "c03_t")))]
    #[kani::proof]
    pub fn c03() {}
    #[cfg(feature = "c03_t")]
    #[kani::proof]
    pub fn c03_t() {}
    #[cfg(all(feature = "c04", not(feature = "c04_t")))]
    #[kani::proof]
    pub fn c04() {}
    #[cfg(feature = "c04_t")]
    #[kani::proof]
    pub fn c04_t() {}
    #[cfg(all(feature = "c05", not(feature = "c05_t")))]
    #[kani::proof]
    pub fn c05() {}
    #[cfg(feature = "c05_t")]
    #[kani::proof]
    pub fn c05_t() {}
    #[cfg(all(feature = "c06", not(feature = "c06_t")))]
    #[kani::proof]
    pub fn c06() {}
    #[cfg(feature = "c06_t")]
    #[kani::proof]
    pub fn c06_t() {}
    #[cfg(all(feature = "c09", not(feature = "c09_t")))]
    #[kani::proof]
    pub fn c09() {}
    #[cfg(feature = "c09_t")]
    #[kani::proof]
    pub fn c09_t() {}
    #[cfg(all(feature = "c10", not(feature = "c10_t")))]
    #[kani::proof]
    pub fn c10() {}
    #[cfg(feature = "c10_t")]
    #[kani::proof]
    pub fn c10_t() {}
    #[cfg(all(feature = "c11", not(feature = "c11_t")))]
    #[kani::proof]
    pub fn c11() {}
    #[cfg(feature = "c11_t")]
    #[kani::proof]
    pub fn c11_t() {}
    #[cfg(all(feature = "c12", not(feature = "c12_t")))]
    #[kani::proof]
    pub fn c12() {}
    #[cfg(feature = "c12_t")]
    #[kani::proof]
    pub fn c12_t() {}
    #[cfg(all(feature = "c13", not(feature = "c13_t")))]
    #[kani::proof]
    pub fn c13() {}
    #[cfg(feature = "c13_t")]
    #[kani::proof]
    pub fn c13_t() {}
    #[cfg(all(feature = "c14", not(feature = "c14_t")))]
    #[kani::proof]
    pub fn c14() {}
    #[cfg(feature = "c14_t")]
    #[kani::proof]
    pub fn c14_t() {}
    #[cfg(all(feature = "c19", not(feature = "c19_t")))]
    #[kani::proof]
    pub fn c19() {}
    #[cfg(feature = "c19_t")]
    #[kani::proof]
    pub fn c19_t() {}
}

/// Native replay of solver counter-examples (`cargo kani playback`); the file
/// is chosen by the driver.
#[cfg(test)]
mod playback {
    include!(env!("VERIF_PLAYBACK_FILE"));
}
