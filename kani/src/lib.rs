//! Kani proof harnesses over the real code of /repo (DESIGN.md, engine E1).
//! One module per property; module `q` = quick tier, `t` = thorough tier,
//! suffix `s` = run with --prove-safety-only, suffix `n` = only in the
//! flavour with debug assertions off.
#![allow(unused)]
#![cfg(kani)]
pub mod util;
#[cfg(feature = "c05")]
pub mod c05;
#[cfg(feature = "c10")]
pub mod c10;

/// Native replay of solver counter-examples (`cargo kani playback`); the file
/// is chosen by the driver.
#[cfg(test)]
mod playback {
    include!(env!("VERIF_PLAYBACK_FILE"));
}
