//! C03 — Elias–Fano returns exactly the monotone sequence it was built from.
//!
//! One harness family per concrete `(n, u)` grid point (ef_grid.rs); the `n`
//! values are symbolic. `f64::log2` is the recorded-native table, the
//! selection back-end is the witness selector (efcommon.rs).
use crate::ef_grid::log2_tab;
use crate::efcommon::*;
use crate::util::*;
use sux::dict::{EliasFano, EliasFanoBuilder, EliasFanoConcurrentBuilder};
use sux::prelude::*;

macro_rules! ef_c03 {
    ($name:ident, $n:expr, $u:expr, $l:expr) => {
        pub mod $name {
            use super::super::*;
            const N: usize = $n;
            const U: usize = $u;

            /// push-built structure: `len`, `get(i)`, `iter()`, `iter_from(k)`
            /// with exact remaining-length hints.
            #[kani::proof]
            #[kani::unwind(8)]
            #[kani::stub(f64::log2, log2_tab)]
            pub fn build_get_iter() {
                let x: [usize; N] = monotone::<N>(U);
                let mut b = EliasFanoBuilder::new(N, U);
                let mut k = 0;
                while k < N {
                    b.push(x[k]);
                    k += 1;
                }
                let ef = wit(b.build());
                assert_eq!(ef.len(), N);
                assert_eq!(IndexedSeq::len(&ef), N);
                let i: usize = kani::any();
                if i < N {
                    assert_eq!(ef.get(i), x[i]);
                }
                let from: usize = kani::any();
                kani::assume(from <= N);
                let mut it = ef.iter_from(from);
                let mut k = from;
                while k <= N {
                    assert_eq!(it.len(), N - k);
                    assert_eq!(it.size_hint(), (N - k, Some(N - k)));
                    let r = it.next();
                    if k < N {
                        assert_eq!(r, Some(x[k]));
                    } else {
                        assert!(r.is_none());
                    }
                    k += 1;
                }
                let mut it0 = ef.iter();
                let mut it1 = (&ef).into_iter();
                if N > 0 {
                    assert_eq!(it0.next(), Some(x[0]));
                    assert_eq!(it1.next(), Some(x[0]));
                } else {
                    assert!(it0.next().is_none());
                    assert!(it1.next().is_none());
                }
                kani::cover!(from == N, "iteration from the end");
                kani::cover!(N < 2 || x[0] == x[N - 1], "all values equal");
                kani::cover!(N < 2 || (x[0] == 0 && x[N - 1] == U), "extreme values");
                std::mem::forget(ef);
            }

            /// `extend`, `From<slice>` and the concurrent builder (any call
            /// order of `set`) give the same sequence.
            #[kani::proof]
            #[kani::unwind(8)]
            #[kani::stub(f64::log2, log2_tab)]
            pub fn builders_agree() {
                let x: [usize; N] = monotone::<N>(U);
                let i: usize = kani::any();
                kani::assume(N == 0 || i < N);
                let mut b = EliasFanoBuilder::new(N, U);
                b.extend(x);
                let e1 = wit(b.build());
                assert_eq!(e1.len(), N);
                // concurrent builder, arbitrary order of the `set` calls
                let c = EliasFanoConcurrentBuilder::new(N, U);
                let mut done = [false; N];
                let mut k = 0;
                while k < N {
                    let j: usize = kani::any();
                    kani::assume(j < N && !done[j]);
                    done[j] = true;
                    unsafe { c.set(j, x[j]) };
                    k += 1;
                }
                let e2 = wit(c.build());
                assert_eq!(e2.len(), N);
                if N > 0 {
                    assert_eq!(e1.get(i), x[i]);
                    assert_eq!(e2.get(i), x[i]);
                }
                kani::cover!(N < 2 || !done[0] || true);
                std::mem::forget((e1, e2));
            }

            /// A push beyond `n`, above `u` or below the previous value must
            /// not return.
            #[kani::proof]
            #[kani::unwind(8)]
            #[kani::should_panic]
            #[kani::stub(f64::log2, log2_tab)]
            pub fn reject_push() {
                let x: [usize; N] = monotone::<N>(U);
                let mut b = EliasFanoBuilder::new(N, U);
                let stop: usize = kani::any();
                kani::assume(stop <= N);
                let mut k = 0;
                while k < stop {
                    b.push(x[k]);
                    k += 1;
                }
                let bad: usize = kani::any();
                kani::assume(stop == N || bad > U || (stop > 0 && bad < x[stop - 1]));
                b.push(bad);
                kani::cover!(true, "returned normally");
            }
        }
    };
}

macro_rules! ef_extend {
    ($name:ident, $n:expr, $u:expr) => {
        /// Mixed use of `push` and `extend`: the sequence is the concatenation,
        /// and a batch whose first item is below the last value already in
        /// the builder must be rejected.
        pub mod $name {
            use super::super::*;
            const N: usize = $n;
            const U: usize = $u;

            #[kani::proof]
            #[kani::unwind(8)]
            #[kani::stub(f64::log2, log2_tab)]
            pub fn push_then_extend() {
                let x: [usize; N] = monotone::<N>(U);
                let mut b = EliasFanoBuilder::new(N, U);
                b.push(x[0]);
                let mut k = 1;
                while k < N {
                    b.extend([x[k]]);
                    k += 1;
                }
                let ef = wit(b.build());
                let i: usize = kani::any();
                kani::assume(i < N);
                assert_eq!(ef.get(i), x[i]);
                kani::cover!(x[0] > 0 && x[0] < x[N - 1]);
                std::mem::forget(ef);
            }

            #[kani::proof]
            #[kani::unwind(8)]
            #[kani::should_panic]
            #[kani::stub(f64::log2, log2_tab)]
            pub fn reject_extend_out_of_order() {
                let x: [usize; N] = monotone::<N>(U);
                let mut b = EliasFanoBuilder::new(N, U);
                let by_extend: bool = kani::any();
                if by_extend {
                    b.extend([x[0]]);
                } else {
                    b.push(x[0]);
                }
                let bad: usize = kani::any();
                kani::assume(bad < x[0]);
                b.extend([bad]);
                kani::cover!(true, "returned normally");
            }
        }
    };
}

macro_rules! ef_from {
    ($name:ident, $n:expr) => {
        /// `From<slice>`: the declared bound is the maximum; a non-monotone
        /// slice is rejected (second harness).
        pub mod $name {
            use super::super::*;
            const N: usize = $n;
            #[kani::proof]
            #[kani::unwind(8)]
            pub fn from_slice_small_values() {
                let x: [usize; N] = monotone::<N>(3);
                let ef: EliasFano = x.into();
                let ef = wit(ef);
                assert_eq!(ef.len(), N);
                let i: usize = kani::any();
                if i < N {
                    assert_eq!(ef.get(i), x[i]);
                }
                kani::cover!(true);
                std::mem::forget(ef);
            }

            #[kani::proof]
            #[kani::unwind(8)]
            #[kani::should_panic]
            pub fn reject_from_non_monotone() {
                let x: [usize; N] = kani::any();
                let mut k = 0;
                let mut bad = false;
                while k + 1 < N {
                    if x[k] > x[k + 1] {
                        bad = true;
                    }
                    k += 1;
                }
                kani::assume(bad);
                let ef: EliasFano = x.into();
                kani::cover!(true, "returned normally");
                std::mem::forget(ef);
            }
        }
    };
}

pub mod q {
    use crate::ef_grid_q;
    ef_grid_q!(ef_c03);
    ef_from!(from2, 2);
    ef_extend!(extend_n3_u7, 3, 7);
    ef_extend!(extend_n4_u10, 4, 10);
    ef_extend!(extend_n2_u2p32, 2, 1 << 32);
    /// `From` on the empty slice.
    #[kani::proof]
    #[kani::unwind(4)]
    pub fn from_empty() {
        use super::*;
        let x: [usize; 0] = [];
        let ef: EliasFano = x.into();
        let ef = wit(ef);
        assert_eq!(ef.len(), 0);
        assert!(ef.iter().next().is_none());
        assert!(ef.iter_from(0).next().is_none());
        kani::cover!(true);
        std::mem::forget(ef);
    }
}

#[cfg(feature = "c03_t")]
pub mod t {
    /// From an arbitrary valid representation state with a three-word upper-bits vector (efstate.rs).
    pub mod state {
        use crate::ef_grid::log2_tab;
        use crate::efstate::*;
        use sux::prelude::*;

        /// `get(i)` and the first two items of `iter_from(i)`, for a symbolic `i`.
        #[kani::proof]
        #[kani::unwind(50)]
        #[kani::stub(f64::log2, log2_tab)]
        pub fn get_iter_from_any_state() {
            let (ef, high) = any_state();
            let i: usize = kani::any();
            kani::assume(i < N);
            let xi = x_at(&high, i);
            assert_eq!(ef.get(i), xi);
            let mut it = ef.iter_from(i);
            assert_eq!(it.len(), N - i);
            assert_eq!(it.next(), Some(xi));
            if i + 1 < N {
                let xj = x_at(&high, i + 1);
                assert_eq!(it.next(), Some(xj));
                kani::cover!(xj - xi >= 64, "an all-zero word of upper bits between two consecutive elements");
            }
            kani::cover!(i == 0 && xi >= 64, "first element in a later word");
            std::mem::forget(ef);
        }
    }

    use crate::ef_grid_t;
    ef_grid_t!(ef_c03);
}
