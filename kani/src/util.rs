//! Reference models shared by all harnesses. Deliberately short and not
//! structured like the implementation (DESIGN.md §1.2).

/// Mask with the lowest `k` bits set (`k >= 64` gives all ones).
pub fn lowmask(k: usize) -> usize {
    if k >= 64 {
        !0
    } else {
        (1usize << k) - 1
    }
}

/// Word-level specification of the number of ones among the first `q` bits.
pub fn ones_before(words: &[usize], q: usize) -> usize {
    let wq = q / 64;
    let mut c = 0usize;
    let mut i = 0;
    while i < words.len() {
        if i < wq {
            c += words[i].count_ones() as usize;
        } else if i == wq {
            c += (words[i] & lowmask(q % 64)).count_ones() as usize;
        }
        i += 1;
    }
    c
}

/// Bit `p` of a word array.
pub fn bit(words: &[usize], p: usize) -> bool {
    (words[p / 64] >> (p % 64)) & 1 == 1
}

/// Reference `get` of a bit-field vector over words narrower than 128 bits:
/// double-width arithmetic on the two words involved.
macro_rules! ref_get_impl {
    ($name:ident, $W:ty) => {
        pub fn $name(words: &[$W], w: usize, i: usize) -> $W {
            const B: usize = <$W>::BITS as usize;
            if w == 0 {
                return 0;
            }
            let pos = i * w;
            let wi = pos / B;
            let bi = pos % B;
            let lo = words[wi] as u128;
            let hi = if wi + 1 < words.len() { words[wi + 1] as u128 } else { 0 };
            let both = lo | (hi << B);
            let m: u128 = if w >= 128 { !0 } else { (1u128 << w) - 1 };
            ((both >> bi) & m) as $W
        }
    };
}
ref_get_impl!(ref_get_u8, u8);
ref_get_impl!(ref_get_u16, u16);
ref_get_impl!(ref_get_u32, u32);
ref_get_impl!(ref_get_u64, u64);
ref_get_impl!(ref_get_usize, usize);

/// Reference `get` for 128-bit words: bit loop bounded by the width.
pub fn ref_get_u128(words: &[u128], w: usize, i: usize) -> u128 {
    if w == 0 {
        return 0;
    }
    let pos = i * w;
    let wi = pos / 128;
    let bi = pos % 128;
    let m: u128 = if w >= 128 { !0 } else { (1u128 << w) - 1 };
    if bi == 0 {
        words[wi] & m
    } else if bi + w <= 128 {
        (words[wi] >> bi) & m
    } else {
        ((words[wi] >> bi) | (words[wi + 1] << (128 - bi))) & m
    }
}

pub fn wmask_u128(w: usize, bits: usize) -> u128 {
    if w == 0 {
        0
    } else if w >= 128 {
        !0
    } else {
        (1u128 << w) - 1
    }
}

/// Stub for `alloc::fmt::format` on error paths whose message is irrelevant
/// to the property (formatting dominates symbolic execution otherwise).
pub fn no_format(_args: core::fmt::Arguments<'_>) -> String {
    String::new()
}

/// Stub for `Backtrace::capture` (anyhow captures one per error).
pub fn no_backtrace() -> std::backtrace::Backtrace {
    std::backtrace::Backtrace::disabled()
}
