//! Elias–Fano query functions from an arbitrary valid representation state
//! (C03 iteration, C04 succ / pred / index_of), for sequences long enough
//! that the upper-bits vector spans several words (the (n,u) grid of
//! ef_grid.rs has n <= 5: one word). The structure is built by the real
//! builder for concrete `(N, U)` and its upper-bits vector is then *replaced*
//! (through the public `map_high_bits`) by fully symbolic words constrained
//! only by the representation invariant: exactly `N` ones among the first
//! `N + (U >> l) + 1` bits, the last of which is a zero. With `U < 2N` there are no lower bits (`l = 0`),
//! so every such vector is the representation of exactly one monotone
//! sequence bounded by `U`: `x_i = select(i) - i`. All clustered sequences
//! (an all-zero word between two consecutive elements, elements starting in a
//! later word) are inside.
pub use crate::efcommon::*;
use crate::util::*;
use sux::bits::BitVec;
use sux::dict::{EliasFano, EliasFanoBuilder};
use sux::prelude::*;

pub const N: usize = 44;
pub const U: usize = 86;
pub const HW: usize = 3;
pub const HLEN: usize = N + U + 1;

pub type EfS = EliasFano<WitSel<BitVec<[usize; HW]>>>;

/// Builds the structure over an arbitrary valid upper-bits vector.
pub fn any_state() -> (EfS, [usize; HW]) {
    let high: [usize; HW] = kani::any();
    kani::assume(high[HW - 1] >> (HLEN - 64 * (HW - 1)) == 0);
    kani::assume(ones_before(&high, HLEN) == N);
    // every value is at most U: the one of rank i sits at position x_i + i <= U + N - 1, so the last
    // bit of the vector is always a zero (found missing by a non-genuine counter-example: an element
    // U + 1 in the first version of this invariant)
    kani::assume((high[(HLEN - 1) / 64] >> ((HLEN - 1) % 64)) & 1 == 0);
    let mut b = EliasFanoBuilder::new(N, U);
    let mut k = 0;
    while k < N {
        b.push(0);
        k += 1;
    }
    let ef = b.build();
    let ef = unsafe {
        ef.map_high_bits(|h| {
            std::mem::forget(h);
            WitSel { bits: BitVec::from_raw_parts(high, HLEN), len: HLEN }
        })
    };
    (ef, high)
}

/// The `i`-th element of the represented sequence (`i < N`), by witness: the
/// position `p` of the one of rank `i` (bit set, `i` ones before it) stands
/// for the value `p - i`.
pub fn x_at(high: &[usize; HW], i: usize) -> usize {
    let p: usize = kani::any();
    kani::assume(p < HLEN);
    kani::assume((high[p / 64] >> (p % 64)) & 1 == 1);
    kani::assume(ones_before(high, p) == i);
    p - i
}
