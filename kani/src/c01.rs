//! C01 — rank(p) is the exact prefix popcount, for every rank structure.
//!
//! Backing array of `N` fully symbolic words; `len` concrete per harness
//! (a symbolic `len` makes the counter vectors symbolic-sized); the bits of
//! the last word beyond `len` are symbolic, so every stale-tail state for
//! those lengths is inside. `p` is a fully symbolic `usize`.
use crate::util::*;
use sux::bits::BitVec;
use sux::prelude::*;
use sux::rank_sel::{Rank9, RankSmall};
use sux::traits::rank_sel::AddNumBits;

macro_rules! rank_harness {
    ($name:ident, $N:expr, $LEN:expr, $UNW:literal, $build:expr) => {
        #[kani::proof]
        #[kani::unwind($UNW)]
        pub fn $name() {
            const N: usize = $N;
            const LEN: usize = $LEN;
            let words: [usize; N] = kani::any();
            let bits = unsafe { BitVec::from_raw_parts(words, LEN) };
            let r = $build(bits);
            let p: usize = kani::any();
            let q = if p < LEN { p } else { LEN };
            let exp = ones_before(&words, q);
            assert_eq!(r.rank(p), exp);
            assert_eq!(r.rank_zero(p), p - exp);
            let total = ones_before(&words, LEN);
            assert_eq!(r.num_ones(), total);
            assert_eq!(r.count_ones(), total);
            assert_eq!(r.num_zeros(), LEN - total);
            assert_eq!(BitLength::len(&r), LEN);
            let i: usize = kani::any();
            if i < LEN {
                assert_eq!(r[i], bit(&words, i));
            }
            kani::cover!(p < LEN && p >= 64 * (N - 1), "position in the last word");
            kani::cover!(p >= LEN, "position at or past the end");
            kani::cover!(LEN % 64 == 0 || (words[N - 1] >> (LEN % 64)) != 0, "stale bits beyond len in the last word");
            kani::cover!(total == LEN, "all ones (saturated counters)");
            std::mem::forget(r);
        }
    };
}

/// Structured contents for the variants with large blocks: `N` words of
/// a concrete fill (all zeros or all ones -- the latter drives every
/// relative counter to its maximum), with the words around block and
/// sub-block boundaries and the tail word symbolic.
macro_rules! rank_structured {
    ($name:ident, $N:expr, $LEN:expr, $UNW:literal, $build:expr, [$($idx:expr),+]) => {
        #[kani::proof]
        #[kani::unwind($UNW)]
        pub fn $name() {
            const N: usize = $N;
            const LEN: usize = $LEN;
            let fill: bool = kani::any();
            let mut words = [if fill { !0usize } else { 0usize }; N];
            $( words[$idx] = kani::any(); )+
            let bits = unsafe { BitVec::from_raw_parts(words, LEN) };
            let r = $build(bits);
            let p: usize = kani::any();
            let q = if p < LEN { p } else { LEN };
            let exp = ones_before(&words, q);
            assert_eq!(r.rank(p), exp);
            assert_eq!(r.rank_zero(p), p - exp);
            assert_eq!(r.num_ones(), ones_before(&words, LEN));
            kani::cover!(fill && p < LEN && exp >= 1000, "about a thousand ones before the position (wide relative counters)");
            kani::cover!(!fill && p < LEN && exp > 0, "sparse contents");
            kani::cover!(p >= LEN);
            std::mem::forget(r);
        }
    };
}

type Bv<const N: usize> = BitVec<[usize; N]>;

fn rank9<const N: usize>(b: Bv<N>) -> Rank9<Bv<N>> {
    Rank9::new(b)
}
fn rs0<const N: usize>(b: Bv<N>) -> RankSmall<2, 9, Bv<N>> {
    RankSmall::<2, 9, _, _, _>::new(b)
}
fn rs1<const N: usize>(b: Bv<N>) -> RankSmall<1, 9, Bv<N>> {
    RankSmall::<1, 9, _, _, _>::new(b)
}
fn rs2<const N: usize>(b: Bv<N>) -> RankSmall<1, 10, Bv<N>> {
    RankSmall::<1, 10, _, _, _>::new(b)
}
fn rs3<const N: usize>(b: Bv<N>) -> RankSmall<1, 11, Bv<N>> {
    RankSmall::<1, 11, _, _, _>::new(b)
}
fn rs4<const N: usize>(b: Bv<N>) -> RankSmall<3, 13, Bv<N>> {
    RankSmall::<3, 13, _, _, _>::new(b)
}

pub mod q {
    use super::*;
    // Rank9: one word, and one block plus one word
    rank_harness!(rank9_n1_len37, 1, 37, 12, rank9::<1>);
    rank_harness!(rank9_n1_len64, 1, 64, 12, rank9::<1>);
    rank_harness!(rank9_n9_len575, 9, 575, 12, rank9::<9>);
    rank_harness!(rank9_n9_len513, 9, 513, 12, rank9::<9>);
    rank_harness!(rank9_n8_len512, 8, 512, 12, rank9::<8>);
    // RankSmall<2,9> (8 words per block, 8 sub-blocks)
    rank_harness!(rs0_n9_len575, 9, 575, 12, rs0::<9>);
    rank_harness!(rs0_n9_len513, 9, 513, 12, rs0::<9>);
    // RankSmall<1,9> (8 words per block, 4 sub-blocks of 2 words)
    rank_harness!(rs1_n9_len575, 9, 575, 12, rs1::<9>);
    rank_harness!(rs1_n9_len513, 9, 513, 12, rs1::<9>);
    // RankSmall<1,10> (16 words per block, sub-blocks of 4 words)
    rank_harness!(rs2_n5_len300, 5, 300, 20, rs2::<5>);
    // RankSmall<1,11> (32 words per block, sub-blocks of 8 words): one block
    rank_harness!(rs3_n5_len300, 5, 300, 36, rs3::<5>);

    // RankSmall<1,10>: 16 words per block, sub-blocks of 4 words
    rank_structured!(rs2_structured_n33, 33, 64 * 33 - 9, 36, rs2::<33>, [0, 3, 4, 15, 16, 32]);
    // RankSmall<1,11>: 32 words per block, sub-blocks of 8 words
    rank_structured!(rs3_structured_n33, 33, 64 * 33 - 9, 36, rs3::<33>, [0, 8, 24, 32]);

    /// `AddNumBits` over a bit vector: cached number of ones, length and
    /// indexing are those of the vector (stale tail included).
    #[kani::proof]
    #[kani::unwind(6)]
    pub fn add_num_bits() {
        let words: [usize; 3] = kani::any();
        // concrete length: BitVec::count_ones with a symbolic residual does
        // not finish (DESIGN.md §1.2); all residuals are decided in C06
        let len: usize = 150;
        let bits = unsafe { BitVec::from_raw_parts(words, len) };
        let a: AddNumBits<_> = bits.into();
        assert_eq!(a.num_ones(), ones_before(&words, len));
        assert_eq!(a.num_zeros(), len - ones_before(&words, len));
        assert_eq!(a.len(), len);
        let i: usize = kani::any();
        if i < len {
            assert_eq!(a[i], bit(&words, i));
        }
        kani::cover!(words[2] >> 22 != 0, "stale bits");
    }

    /// The empty vector.
    #[kani::proof]
    #[kani::unwind(12)]
    pub fn empty() {
        let words: [usize; 1] = kani::any();
        let p: usize = kani::any();
        let r = Rank9::new(unsafe { BitVec::from_raw_parts(words, 0) });
        assert_eq!(r.rank(p), 0);
        assert_eq!(r.num_ones(), 0);
        assert_eq!(r.rank_zero(p), p);
        let s = RankSmall::<1, 9, _, _, _>::new(unsafe { BitVec::from_raw_parts(words, 0) });
        assert_eq!(s.rank(p), 0);
        assert_eq!(s.num_ones(), 0);
        let e = Rank9::new(unsafe { BitVec::from_raw_parts([0usize; 0], 0) });
        assert_eq!(e.rank(p), 0);
        kani::cover!(words[0] != 0, "stale bits in an empty vector");
        std::mem::forget((r, s, e));
    }
}

#[cfg(feature = "c01_t")]
pub mod t {
    use super::*;

    /// RankSmall<3,13>: one block is 128 words, and 130 fully symbolic words do
    /// not finish; structured contents instead: the words around the block and
    /// sub-block boundaries and the tail word are symbolic, the rest is one of
    /// two concrete fills (all zeros, all ones: every relative counter at its
    /// maximum).
    fn rs4_structured(fill: usize) {
        const N: usize = 130;
        const LEN: usize = 64 * N - 5;
        let mut words = [fill; N];
        let sym: [usize; 8] = kani::any();
        let idx: [usize; 8] = [0, 15, 16, 63, 64, 127, 128, 129];
        let mut k = 0;
        while k < 8 {
            words[idx[k]] = sym[k];
            k += 1;
        }
        let bits = unsafe { BitVec::from_raw_parts(words, LEN) };
        let r = rs4::<N>(bits);
        let p: usize = kani::any();
        let q = if p < LEN { p } else { LEN };
        let exp = ones_before(&words, q);
        assert_eq!(r.rank(p), exp);
        let total = ones_before(&words, LEN);
        assert_eq!(r.num_ones(), total);
        assert_eq!(r.rank_zero(p), p - exp);
        kani::cover!(p >= 64 * 128 && p < LEN, "position in the second block");
        kani::cover!(p / 64 == 16, "position after the first sub-block boundary");
        kani::cover!((words[N - 1] >> 59) != 0, "stale bits beyond len");
        std::mem::forget(r);
    }
    #[kani::proof]
    #[kani::unwind(140)]
    pub fn rs4_structured_zeros() {
        rs4_structured(0);
    }
    #[kani::proof]
    #[kani::unwind(140)]
    pub fn rs4_structured_ones() {
        rs4_structured(!0);
    }

    /// Rank9 over `AddNumBits<BitVec>` (a wrapper stack): same answers.
    #[kani::proof]
    #[kani::unwind(12)]
    pub fn rank9_over_add_num_bits() {
        let words: [usize; 9] = kani::any();
        const LEN: usize = 513;
        let bits = unsafe { BitVec::from_raw_parts(words, LEN) };
        let a = unsafe { AddNumBits::from_raw_parts(bits, ones_before(&words, LEN)) };
        let r = Rank9::new(a);
        let p: usize = kani::any();
        let q = if p < LEN { p } else { LEN };
        assert_eq!(r.rank(p), ones_before(&words, q));
        assert_eq!(r.num_ones(), ones_before(&words, LEN));
        kani::cover!(p >= LEN);
        std::mem::forget(r);
    }
    rank_harness!(rank9_n9_len576, 9, 576, 12, rank9::<9>);
    rank_harness!(rank9_n9_len544, 9, 544, 12, rank9::<9>);
    rank_harness!(rank9_n17_len1087, 17, 1087, 20, rank9::<17>);
    rank_harness!(rank9_n17_len1025, 17, 1025, 20, rank9::<17>);
    rank_harness!(rank9_n17_len1088, 17, 1088, 20, rank9::<17>);
    rank_harness!(rs0_n17_len1087, 17, 1087, 20, rs0::<17>);
    rank_harness!(rs0_n17_len1025, 17, 1025, 20, rs0::<17>);
    rank_harness!(rs0_n9_len576, 9, 576, 12, rs0::<9>);
    rank_harness!(rs1_n17_len1087, 17, 1087, 20, rs1::<17>);
    rank_harness!(rs1_n17_len1025, 17, 1025, 20, rs1::<17>);
    rank_harness!(rs1_n9_len576, 9, 576, 12, rs1::<9>);
    rank_harness!(rs2_n17_len1025, 17, 1025, 20, rs2::<17>);
    rank_harness!(rs2_n17_len1087, 17, 1087, 20, rs2::<17>);
    rank_harness!(rs2_n33_len2111, 33, 2111, 36, rs2::<33>);
    rank_harness!(rs2_n33_len2049, 33, 2049, 36, rs2::<33>);
    // two blocks plus a word of RankSmall<1,11>: 65 fully symbolic words do not finish in 25 min;
    // structured contents (concrete fill, symbolic boundary words) instead
    rank_structured!(rs3_structured_n65, 65, 64 * 65 - 9, 68, rs3::<65>, [0, 7, 8, 31, 32, 64]);
    rank_harness!(rs3_n33_len2111, 33, 2111, 36, rs3::<33>);
    rank_harness!(rs3_n33_len2049, 33, 2049, 36, rs3::<33>);
}
