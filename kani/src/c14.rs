//! C14 — storage outside the logical contents is neither trusted nor modified.
//!
//! Readers: relational harnesses — the same logical contents over clean
//! storage and over storage with arbitrary garbage beyond the logical length
//! (same word and spare words) must answer identically. Writers: a symbolic
//! probe bit outside the elements an operation is documented to write must
//! keep its value in the raw backend.
use crate::util::*;
use std::sync::atomic::{AtomicUsize, Ordering};
use sux::bits::{AtomicBitFieldVec, AtomicBitVec, BitFieldVec, BitVec};
use sux::prelude::*;

const NB: usize = 3;

/// Symbolic words, a symbolic length, and the same words with every bit at or
/// beyond `len` cleared.
fn dirty_clean() -> ([usize; NB], [usize; NB], usize) {
    let words: [usize; NB] = kani::any();
    let len: usize = kani::any();
    kani::assume(len <= 64 * NB);
    let mut clean = words;
    let mut k = 0;
    while k < NB {
        if 64 * k >= len {
            clean[k] = 0;
        } else if len - 64 * k < 64 {
            clean[k] &= lowmask(len - 64 * k);
        }
        k += 1;
    }
    (words, clean, len)
}

macro_rules! c14_prelude {
    ($W:ty, $N:expr) => {
        use super::super::*;
        type W = $W;
        const N: usize = $N;
        const B: usize = <W>::BITS as usize;
        type Arr = BitFieldVec<W, [W; N]>;

        fn wmask(w: usize) -> W {
            if w == 0 {
                0
            } else {
                <W>::MAX >> (B - w)
            }
        }
        fn wbit(words: &[W; N], p: usize) -> bool {
            (words[p / B] >> (p % B)) & 1 == 1
        }
    };
}

macro_rules! c14_bfv {
    ($W:ty, $N:expr, $refget:ident, $EQUNW:literal) => {
        c14_prelude!($W, $N);

        /// Words, width, length, and a second backend that agrees with the
        /// first on every bit below `len * w` and is arbitrary elsewhere.
        fn two_backends() -> ([W; N], [W; N], usize, usize) {
            let a: [W; N] = kani::any();
            let b: [W; N] = kani::any();
            let w: usize = kani::any();
            kani::assume(w <= B);
            let len: usize = kani::any();
            kani::assume(len <= 2 * N * B && len * w <= N * B);
            let bl = len * w;
            let mut k = 0;
            while k < N {
                if B * k >= bl {
                    // unrelated
                } else if bl - B * k < B {
                    let m: W = (1 as W).wrapping_shl((bl - B * k) as u32).wrapping_sub(1);
                    kani::assume(a[k] & m == b[k] & m);
                } else {
                    kani::assume(a[k] == b[k]);
                }
                k += 1;
            }
            (a, b, w, len)
        }

        /// Readers: `get`, `==` in both directions, the checked iterator and
        /// the two unchecked iterators ignore the storage beyond `len * w`.
        #[kani::proof]
        #[kani::unwind($EQUNW)]
        pub fn readers_ignore_garbage() {
            let (a, b, w, len) = two_backends();
            let x = unsafe { Arr::from_raw_parts(a, w, len) };
            let y = unsafe { Arr::from_raw_parts(b, w, len) };
            let i: usize = kani::any();
            kani::assume(i < len);
            assert_eq!(x.get(i), y.get(i));
            assert!(x == y);
            assert!(y == x);
            let mut ix = x.iter_from(i);
            let mut iy = y.iter_from(i);
            assert_eq!(ix.next(), iy.next());
            assert_eq!(ix.next(), iy.next());
            let mut ux = (&x).into_unchecked_iter_from(i);
            let mut uy = (&y).into_unchecked_iter_from(i);
            assert_eq!(unsafe { ux.next_unchecked() }, unsafe { uy.next_unchecked() });
            let mut rx = (&x).into_rev_unchecked_iter_from(i + 1);
            let mut ry = (&y).into_rev_unchecked_iter_from(i + 1);
            assert_eq!(unsafe { rx.next_unchecked() }, unsafe { ry.next_unchecked() });
            kani::cover!(len > 1 && (len * w) % B != 0 && a != b, "garbage in the last word");
            kani::cover!(len > 0 && (len * w).div_ceil(B) < N && a != b, "garbage in spare words");
        }

        /// `set(i, x)` changes no bit outside element `i`.
        #[kani::proof]
        #[kani::unwind(6)]
        pub fn set_preserves() {
            let words: [W; N] = kani::any();
            let w: usize = kani::any();
            kani::assume(w <= B);
            let len: usize = kani::any();
            kani::assume(len <= 2 * N * B && len * w <= N * B);
            let mut v = unsafe { Arr::from_raw_parts(words, w, len) };
            let i: usize = kani::any();
            kani::assume(i < len);
            let x: W = kani::any();
            kani::assume(x & wmask(w) == x);
            v.set(i, x);
            let (after, _, _) = v.into_raw_parts();
            let p: usize = kani::any();
            kani::assume(p < N * B && !(p >= i * w && p < (i + 1) * w));
            assert_eq!(wbit(&after, p), wbit(&words, p));
            kani::cover!(p >= len * w, "probe beyond the logical contents");
            kani::cover!(w > 1 && (i * w) % B + w > B && p / B == (i * w) / B + 1, "probe in the second word of a straddling element");
        }

        /// `reset` changes no bit at or beyond `len * w`.
        #[kani::proof]
        #[kani::unwind(6)]
        pub fn reset_preserves() {
            let words: [W; N] = kani::any();
            let w: usize = kani::any();
            kani::assume(w <= B);
            let len: usize = kani::any();
            kani::assume(len <= 2 * N * B && len * w <= N * B);
            let mut v = unsafe { Arr::from_raw_parts(words, w, len) };
            v.reset();
            let (after, _, _) = v.into_raw_parts();
            let p: usize = kani::any();
            kani::assume(p < N * B && p >= len * w);
            assert_eq!(wbit(&after, p), wbit(&words, p));
            kani::cover!(len > 0 && p / B == (len * w) / B, "probe in the last word");
            kani::cover!(len > 0 && p / B > (len * w) / B, "probe in a spare word");
        }

        /// `apply_in_place` changes no bit at or beyond `len * w`.
        #[kani::proof]
        #[kani::unwind(8)]
        pub fn apply_preserves() {
            let words: [W; N] = kani::any();
            let w: usize = kani::any();
            kani::assume(w >= 1 && w <= B);
            let len: usize = kani::any();
            kani::assume(len <= 4 && len * w <= N * B);
            let mut v = unsafe { Arr::from_raw_parts(words, w, len) };
            let t: [W; 4] = kani::any();
            let mut c = 0usize;
            v.apply_in_place(|_| {
                let r = t[c % 4] & wmask(w);
                c += 1;
                r
            });
            let (after, _, _) = v.into_raw_parts();
            let p: usize = kani::any();
            kani::assume(p < N * B && p >= len * w);
            assert_eq!(wbit(&after, p), wbit(&words, p));
            kani::cover!(len > 0 && p / B == (len * w) / B && w.is_power_of_two(), "last word, power-of-two path");
            kani::cover!(len > 0 && p / B == (len * w) / B && !w.is_power_of_two(), "last word, general path");
            kani::cover!(len > 0 && p / B > (len * w) / B, "probe in a spare word");
        }

        /// Writing through a chunk view changes no bit outside the element.
        #[kani::proof]
        #[kani::unwind(6)]
        pub fn chunk_set_preserves() {
            let words: [W; N] = kani::any();
            let w: usize = kani::any();
            kani::assume(w >= 1 && w <= B);
            let len: usize = kani::any();
            kani::assume(len >= 1 && len <= N * B && len * w <= N * B);
            let mut v = unsafe { Arr::from_raw_parts(words, w, len) };
            let cs: usize = kani::any();
            kani::assume(cs >= 1 && cs <= len);
            let x: W = kani::any();
            kani::assume(x & wmask(w) == x);
            let i: usize = kani::any();
            let mut wrote: Option<usize> = None;
            if let Ok(mut it) = v.try_chunks_mut(cs) {
                let _ = it.next();
                if let Some(mut ch) = it.next() {
                    if i < BitFieldSliceCore::<W>::len(&ch) {
                        ch.set(i, x);
                        wrote = Some(cs + i);
                    }
                }
            }
            let (after, _, _) = v.into_raw_parts();
            let p: usize = kani::any();
            kani::assume(p < N * B);
            match wrote {
                Some(e) => {
                    if !(p >= e * w && p < (e + 1) * w) {
                        assert_eq!(wbit(&after, p), wbit(&words, p));
                    }
                }
                None => assert_eq!(wbit(&after, p), wbit(&words, p)),
            }
            kani::cover!(wrote.is_some() && p >= len * w, "probe beyond the logical contents");
        }
    };
}

macro_rules! c14_bfv_copy {
    ($refget:ident, $wexpr:expr) => {
        /// `copy` into a destination changes no destination bit outside the
        /// copied window (in particular nothing beyond `len * w`).
        #[kani::proof]
        #[kani::unwind(6)]
        pub fn copy_preserves() {
            let src: [W; N] = kani::any();
            let dst: [W; N] = kani::any();
            let w: usize = $wexpr;
            kani::assume(w >= 1 && w <= B);
            let n = N * B / w;
            let ns: usize = kani::any();
            let nd: usize = kani::any();
            kani::assume(ns <= n && nd <= n);
            let s = unsafe { Arr::from_raw_parts(src, w, ns) };
            let mut d = unsafe { Arr::from_raw_parts(dst, w, nd) };
            let from: usize = kani::any();
            let to: usize = kani::any();
            let len: usize = kani::any();
            kani::assume(from <= ns && to <= nd);
            s.copy(from, &mut d, to, len);
            let eff = len.min(ns - from).min(nd - to);
            let (after, _, _) = d.into_raw_parts();
            let p: usize = kani::any();
            kani::assume(p < N * B && !(p >= to * w && p < (to + eff) * w));
            assert_eq!(wbit(&after, p), wbit(&dst, p));
            kani::cover!(eff > 1 && p >= nd * w, "probe beyond the logical contents");
            kani::cover!(eff > 1 && p / B == ((to + eff) * w) / B, "probe in the last written word");
        }
    };
}

macro_rules! c14_bfv_atomic {
    ($A:ty) => {
        /// `set_atomic` / `reset_atomic` change no bit outside their elements.
        #[kani::proof]
        #[kani::unwind(6)]
        pub fn atomic_preserves() {
            let words: [W; N] = kani::any();
            let w: usize = kani::any();
            kani::assume(w <= B);
            let len: usize = kani::any();
            kani::assume(len <= 2 * N * B && len * w <= N * B);
            let aw: [$A; N] = core::array::from_fn(|k| <$A>::new(words[k]));
            let mut v = unsafe { AtomicBitFieldVec::<W, [$A; N]>::from_raw_parts(aw, w, len) };
            let i: usize = kani::any();
            kani::assume(i < len);
            let x: W = kani::any();
            kani::assume(x & wmask(w) == x);
            v.set_atomic(i, x, Ordering::Relaxed);
            let p: usize = kani::any();
            kani::assume(p < N * B);
            {
                let s = v.as_slice();
                let after: [W; N] = core::array::from_fn(|k| s[k].load(Ordering::Relaxed));
                if !(p >= i * w && p < (i + 1) * w) {
                    assert_eq!(wbit(&after, p), wbit(&words, p));
                }
            }
            v.reset_atomic(Ordering::Relaxed);
            let s = v.as_slice();
            let after: [W; N] = core::array::from_fn(|k| s[k].load(Ordering::Relaxed));
            if p >= len * w {
                assert_eq!(wbit(&after, p), wbit(&words, p));
            }
            kani::cover!(p >= len * w && p / B == (len * w) / B, "probe in the last word");
        }
    };
}

pub mod q {
    pub mod u8_ {
        c14_bfv!(u8, 4, ref_get_u8, 8);
        c14_bfv_copy!(ref_get_u8, kani::any());
        c14_bfv_atomic!(std::sync::atomic::AtomicU8);
    }
    pub mod usize_ {
        c14_bfv!(usize, 3, ref_get_usize, 28);
        c14_bfv_atomic!(std::sync::atomic::AtomicUsize);
    }
    pub mod usize_copy5 {
        c14_prelude!(usize, 3);
        c14_bfv_copy!(ref_get_usize, 5);
    }

    use super::*;

    /// BitVec readers ignore garbage beyond `len`: `get`, `==` in both
    /// directions, `count_ones`, the bit iterator and the ones/zeros
    /// iterators (first two items).
    #[kani::proof]
    #[kani::unwind(28)]
    pub fn bitvec_readers_ignore_garbage() {
        let (dirty, clean, len) = dirty_clean();
        let a = unsafe { BitVec::from_raw_parts(dirty, len) };
        let b = unsafe { BitVec::from_raw_parts(clean, len) };
        assert!(a == b);
        assert!(b == a);
        let i: usize = kani::any();
        kani::assume(i < len);
        assert_eq!(a.get(i), b.get(i));
        let mut ia = a.iter();
        let mut ib = b.iter();
        assert_eq!(ia.next(), ib.next());
        assert_eq!(ia.next(), ib.next());
        kani::cover!(len % 64 != 0 && dirty != clean, "garbage in the last word");
        kani::cover!(len < 64 && dirty[2] != 0, "garbage in spare words");
    }

    #[kani::proof]
    #[kani::unwind(28)]
    pub fn bitvec_ones_zeros_ignore_garbage() {
        let (dirty, clean, len) = dirty_clean();
        let a = unsafe { BitVec::from_raw_parts(dirty, len) };
        let b = unsafe { BitVec::from_raw_parts(clean, len) };
        let mut oa = a.iter_ones();
        let mut ob = b.iter_ones();
        assert_eq!(oa.next(), ob.next());
        assert_eq!(oa.next(), ob.next());
        let mut za = a.iter_zeros();
        let mut zb = b.iter_zeros();
        assert_eq!(za.next(), zb.next());
        assert_eq!(za.next(), zb.next());
        kani::cover!(len % 64 != 0 && dirty != clean, "garbage in the last word");
        kani::cover!(len < 64 && dirty[2] != 0, "garbage in spare words");
    }

    /// Rank structures built over dirty storage answer as the ones built over
    /// clean storage (rank, rank_zero, num_ones for every position).
    #[kani::proof]
    #[kani::unwind(12)]
    pub fn rank_structures_ignore_garbage() {
        use sux::rank_sel::{Rank9, RankSmall};
        const N: usize = 9;
        const LEN: usize = 64 * 8 + 7;
        let dirty: [usize; N] = kani::any();
        let mut clean = dirty;
        clean[N - 1] &= lowmask(LEN % 64);
        let p: usize = kani::any();
        let a = Rank9::new(unsafe { BitVec::from_raw_parts(dirty, LEN) });
        let b = Rank9::new(unsafe { BitVec::from_raw_parts(clean, LEN) });
        assert_eq!(a.rank(p), b.rank(p));
        assert_eq!(a.rank_zero(p), b.rank_zero(p));
        assert_eq!(a.num_ones(), b.num_ones());
        let c = RankSmall::<1, 9, _, _, _>::new(unsafe { BitVec::from_raw_parts(dirty, LEN) });
        let d = RankSmall::<1, 9, _, _, _>::new(unsafe { BitVec::from_raw_parts(clean, LEN) });
        assert_eq!(c.rank(p), d.rank(p));
        assert_eq!(c.num_ones(), d.num_ones());
        kani::cover!(dirty[N - 1] != clean[N - 1] && p >= LEN, "garbage present, position past the end");
        std::mem::forget((a, b, c, d));
    }

    /// BitVec writers: `set`, `fill`, `flip`, `reset` change no bit outside
    /// what they are documented to write.
    #[kani::proof]
    #[kani::unwind(6)]
    pub fn bitvec_writers_preserve() {
        let words: [usize; NB] = kani::any();
        let len: usize = kani::any();
        kani::assume(len <= 64 * NB);
        let p: usize = kani::any();
        kani::assume(p < 64 * NB);
        let op: u8 = kani::any();
        let mut v = unsafe { BitVec::from_raw_parts(words, len) };
        if op == 0 {
            let i: usize = kani::any();
            kani::assume(i < len && i != p);
            v.set(i, kani::any());
            let (after, _) = v.into_raw_parts();
            assert_eq!(bit(&after, p), bit(&words, p));
        } else {
            if op == 1 {
                v.fill(kani::any());
            } else if op == 2 {
                v.flip();
            } else {
                v.reset();
            }
            let (after, _) = v.into_raw_parts();
            if p >= len {
                assert_eq!(bit(&after, p), bit(&words, p));
            }
        }
        kani::cover!(op == 1 && p >= len && p / 64 == len / 64, "fill, probe in the last word");
        kani::cover!(op == 2 && p >= len && p / 64 > len / 64, "flip, probe in a spare word");
    }

    /// AtomicBitVec writers: `set`, `swap`, `fill`, `flip`, `reset`.
    #[kani::proof]
    #[kani::unwind(6)]
    pub fn atomic_bitvec_writers_preserve() {
        let words: [usize; NB] = kani::any();
        let len: usize = kani::any();
        kani::assume(len <= 64 * NB);
        let p: usize = kani::any();
        kani::assume(p < 64 * NB);
        let op: u8 = kani::any();
        let aw: [AtomicUsize; NB] = core::array::from_fn(|k| AtomicUsize::new(words[k]));
        let mut v = unsafe { AtomicBitVec::from_raw_parts(aw, len) };
        let mut written: Option<usize> = None;
        if op == 0 {
            let i: usize = kani::any();
            kani::assume(i < len);
            v.set(i, kani::any(), Ordering::Relaxed);
            written = Some(i);
        } else if op == 1 {
            let i: usize = kani::any();
            kani::assume(i < len);
            let _ = v.swap(i, kani::any(), Ordering::Relaxed);
            written = Some(i);
        } else if op == 2 {
            v.fill(kani::any(), Ordering::Relaxed);
        } else if op == 3 {
            v.flip(Ordering::Relaxed);
        } else {
            v.reset(Ordering::Relaxed);
        }
        let (raw, _) = v.into_raw_parts();
        let after: [usize; NB] = core::array::from_fn(|k| raw[k].load(Ordering::Relaxed));
        match written {
            Some(i) => {
                if p != i {
                    assert_eq!(bit(&after, p), bit(&words, p));
                }
            }
            None => {
                if p >= len {
                    assert_eq!(bit(&after, p), bit(&words, p));
                }
            }
        }
        kani::cover!(op == 2 && p >= len && p / 64 == len / 64, "fill, probe in the last word");
        kani::cover!(op == 1, "swap");
    }
}

#[cfg(feature = "c14_t")]
pub mod t {
    pub mod u16_ {
        c14_bfv!(u16, 4, ref_get_u16, 12);
        c14_bfv_copy!(ref_get_u16, kani::any());
        c14_bfv_atomic!(std::sync::atomic::AtomicU16);
    }
    pub mod u32_ {
        c14_bfv!(u32, 3, ref_get_u32, 16);
        c14_bfv_atomic!(std::sync::atomic::AtomicU32);
    }
    pub mod u64_ {
        c14_bfv!(u64, 3, ref_get_u64, 28);
        c14_bfv_atomic!(std::sync::atomic::AtomicU64);
    }
    // u128: the relational reader harness does not finish in 25 min (256-bit-wide shifts); the u128 readers
    // and writers are decided functionally in C05 / C10 thorough
    pub mod usize_copy63 {
        c14_prelude!(usize, 3);
        c14_bfv_copy!(ref_get_usize, 63);
    }
}
