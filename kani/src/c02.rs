//! C02 — select / select_zero return the r-th one / zero: the part within
//! reach (DESIGN.md §2 C02). The constructors of all seven selection
//! structures are out of reach (inventories whose length is decided by
//! population counts of symbolic words): nothing is claimed end to end.
//! Claimed: (1) the hinted completion step every adaptive / small selector
//! ends in; (3) the `None` guards; (5) the span-type / inventory kernels
//! (hook H5); (4, thorough) the query function of SelectAdapt relative to a
//! written-down inventory invariant (hook H4).
use crate::util::*;
use sux::bits::BitVec;
use sux::prelude::*;
use sux::rank_sel::verif as k;
use sux::traits::rank_sel::AddNumBits;

macro_rules! hinted {
    ($name:ident, $N:expr, $ones:expr, $hb:expr) => {
        /// `select_hinted` / `select_zero_hinted` over `$N` fully symbolic
        /// words with a symbolic valid hint.
        #[kani::proof]
        #[kani::unwind(6)]
        pub fn $name() {
            const N: usize = $N;
            let words: [usize; N] = kani::any();
            let v = unsafe { BitVec::from_raw_parts(words, 64 * N) };
            let ones: bool = $ones;
            let total = if ones { ones_before(&words, 64 * N) } else { 64 * N - ones_before(&words, 64 * N) };
            let rank: usize = kani::any();
            kani::assume(rank < total);
            // a valid hint: a position and the number of ones (zeros) before it, not beyond the answer
            // the bit offset of the hint inside its word is concrete per harness (popcount equalities with a
            // symbolic shift do not finish, DESIGN.md §1.2); the word of the hint is symbolic
            let hint_word: usize = kani::any();
            kani::assume(hint_word < N);
            let hint_pos: usize = 64 * hint_word + $hb;
            let before = if ones { ones_before(&words, hint_pos) } else { hint_pos - ones_before(&words, hint_pos) };
            kani::assume(before <= rank);
            let p = unsafe {
                if ones {
                    v.select_hinted(rank, hint_pos, before)
                } else {
                    v.select_zero_hinted(rank, hint_pos, before)
                }
            };
            assert!(p < 64 * N);
            assert_eq!(bit(&words, p), ones);
            let pb = if ones { ones_before(&words, p) } else { p - ones_before(&words, p) };
            assert_eq!(pb, rank);
            kani::cover!(p / 64 > hint_pos / 64, "answer in a later word than the hint");
            kani::cover!(p / 64 == hint_pos / 64, "answer in the word of the hint");
        }
    };
}

pub mod q {
    use super::*;
    hinted!(select_hinted_2w_b0, 2, true, 0);
    hinted!(select_hinted_2w_b37, 2, true, 37);
    hinted!(select_zero_hinted_2w_b0, 2, false, 0);
    hinted!(select_zero_hinted_2w_b63, 2, false, 63);

    /// Span type: 16-bit entries exactly when every offset inside the span
    /// (0..span) fits 16 bits, 32-bit entries exactly when it fits 32 bits.
    #[kani::proof]
    pub fn span_type_thresholds() {
        let span: usize = kani::any();
        let b = k::span_type_bits(span);
        let max_offset = if span == 0 { 0 } else { span - 1 };
        if max_offset <= 0xFFFF {
            assert_eq!(b, 16);
        } else if max_offset <= 0xFFFF_FFFF {
            assert_eq!(b, 32);
        } else {
            assert_eq!(b, 64);
        }
        kani::cover!(span == 0x10000);
        kani::cover!(span == 0x10001);
        kani::cover!(span == 0x1_0000_0001);
    }

    /// Inventory entries: the span flags are mutually exclusive and the
    /// position (< 2^62) is recovered.
    #[kani::proof]
    pub fn inventory_flags() {
        let pos: usize = kani::any();
        kani::assume(pos < 1 << 62);
        let bits: u32 = kani::any();
        kani::assume(bits == 16 || bits == 32 || bits == 64);
        let (_e, is16, is32, is64, got) = k::inventory_entry(pos, bits);
        assert_eq!(got, pos);
        assert_eq!(is16, bits == 16);
        assert_eq!(is32, bits == 32);
        assert_eq!(is64, bits == 64);
        kani::cover!(bits == 32 && pos == (1 << 62) - 1);
    }

    /// `log2_ones_per_sub32` never exceeds `log2_ones_per_sub16` and does not
    /// underflow, for every span that gets 32-bit entries.
    #[kani::proof]
    pub fn sub32_frequency() {
        let span: usize = kani::any();
        kani::assume(span > 0x10000 && span <= 0x1_0000_0000);
        let l16: usize = kani::any();
        kani::assume(l16 <= 16);
        let l32 = k::log2_ones_per_sub32(span, l16);
        assert!(l32 <= l16);
        assert!(l16 == 0 || l32 < l16);
        kani::cover!(l32 > 0);
    }

    /// The guards of `Select::select` / `SelectZero::select_zero`: `None`
    /// exactly when the rank is not smaller than the number of ones / zeros
    /// (SelectAdapt assembled from raw parts over an all-zero / all-one word,
    /// so that no inventory is consulted on the `None` side).
    #[kani::proof]
    #[kani::unwind(6)]
    pub fn select_guards() {
        let r: usize = kani::any();
        let bv = unsafe { BitVec::from_raw_parts([0usize; 1], 64) };
        let bv = unsafe { AddNumBits::from_raw_parts(bv, 0) };
        let sel = unsafe { SelectAdapt::verif_from_raw_parts(bv, [64usize; 1], [0usize; 1], 3, 1, 0) };
        assert!(sel.select(r).is_none());
        assert_eq!(sel.num_ones(), 0);
        assert_eq!(sel.num_zeros(), 64);
        kani::cover!(true);
    }
}

#[cfg(feature = "c02_t")]
pub mod t {
    use super::*;
    hinted!(select_hinted_3w_b0, 3, true, 0);
    hinted!(select_hinted_3w_b1, 3, true, 1);
    hinted!(select_zero_hinted_3w_b0, 3, false, 0);
    hinted!(select_zero_hinted_2w_b37, 2, false, 37);
    hinted!(select_hinted_2w_b63, 2, true, 63);

    /// Query-side step check for SelectAdapt (16-bit spans, one fully
    /// symbolic word, 8 ones per inventory entry, one subinventory word):
    /// arbitrary inventory satisfying the documented invariant, one symbolic
    /// query. Decides `select_unchecked` for every well-formed state of this
    /// shape; does NOT show that the constructor establishes the invariant.
    #[kani::proof]
    #[kani::unwind(10)]
    pub fn query_select_adapt_u16() {
        query_u16(Kind::Adapt);
    }

    /// The same after the backend has been replaced through `SelectAdapt::map` (identity closure):
    /// `map` rebuilds the structure field by field.
    #[kani::proof]
    #[kani::unwind(10)]
    pub fn query_select_adapt_u16_after_map() {
        query_u16(Kind::AdaptMap);
    }

    /// The const-generic twin `SelectAdaptConst<_, _, 3, 0>` (same layout:
    /// 8 ones per inventory entry, 2 per 16-bit subinventory entry).
    #[kani::proof]
    #[kani::unwind(10)]
    pub fn query_select_adapt_const_u16() {
        query_u16(Kind::AdaptConst);
    }

    /// `SelectZeroAdapt::select_zero`: the same invariant stated over the zeros.
    #[kani::proof]
    #[kani::unwind(10)]
    pub fn query_select_zero_adapt_u16() {
        query_u16(Kind::ZeroAdapt);
    }

    /// `SelectZeroAdaptConst<_, _, 3, 0>::select_zero`.
    #[kani::proof]
    #[kani::unwind(10)]
    pub fn query_select_zero_adapt_const_u16() {
        query_u16(Kind::ZeroAdaptConst);
    }

    #[derive(Clone, Copy, PartialEq)]
    enum Kind {
        Adapt,
        AdaptMap,
        AdaptConst,
        ZeroAdapt,
        ZeroAdaptConst,
    }

    fn query_u16(kind: Kind) {
        const L: usize = 3;
        const M: usize = 0;
        const S16: usize = 1;
        const INV: usize = 8;
        let zero = kind == Kind::ZeroAdapt || kind == Kind::ZeroAdaptConst;
        // `w` is the word whose ones are selected: the stored word for the
        // one-selectors, its complement for the zero-selectors.
        let w: usize = kani::any();
        let stored = if zero { !w } else { w };
        let ones = w.count_ones() as usize;
        let inv: [usize; INV * 2 + 1] = kani::any();
        let ninv = (ones + 7) / 8;
        let mut i = 0;
        while i < INV {
            if i < ninv {
                let start = inv[2 * i];
                kani::assume(start < 64);
                kani::assume((w >> start) & 1 == 1 && (w & lowmask(start)).count_ones() as usize == 8 * i);
                let sub = inv[2 * i + 1];
                kani::assume(sub & 0xFFFF == 0);
                let mut j = 1;
                while j < 4 {
                    let r = 8 * i + 2 * j;
                    if r < ones {
                        let off = (sub >> (16 * j)) & 0xFFFF;
                        let pos = start + off;
                        kani::assume(pos < 64 && (w >> pos) & 1 == 1 && (w & lowmask(pos)).count_ones() as usize == r);
                    }
                    j += 1;
                }
            }
            i += 1;
        }
        let bv = unsafe { BitVec::from_raw_parts([stored], 64) };
        let bv = unsafe { AddNumBits::from_raw_parts(bv, stored.count_ones() as usize) };
        let spill = [0usize; INV * 2 + 1];
        let r: usize = kani::any();
        kani::assume(r <= 65);
        let res = match kind {
            Kind::Adapt => unsafe { SelectAdapt::verif_from_raw_parts(bv, inv, spill, L, S16, M) }.select(r),
            Kind::AdaptMap => {
                let sel = unsafe { SelectAdapt::verif_from_raw_parts(bv, inv, spill, L, S16, M) };
                unsafe { sel.map(|b| b) }.select(r)
            }
            Kind::AdaptConst => unsafe { SelectAdaptConst::<_, _, L, M>::verif_from_raw_parts(bv, inv, spill) }.select(r),
            Kind::ZeroAdapt => unsafe { SelectZeroAdapt::verif_from_raw_parts(bv, inv, spill, L, S16, M) }.select_zero(r),
            Kind::ZeroAdaptConst => unsafe { SelectZeroAdaptConst::<_, _, L, M>::verif_from_raw_parts(bv, inv, spill) }.select_zero(r),
        };
        match res {
            None => {
                assert!(r >= ones);
            }
            Some(p) => {
                assert!(r < ones && p < 64);
                assert!((w >> p) & 1 == 1);
                assert_eq!((w & lowmask(p)).count_ones() as usize, r);
            }
        }
        kani::cover!(ones == 64 && r == 63, "saturated inventory");
        kani::cover!(ones > 9 && r == 9, "second inventory entry");
    }
}
