//! C05 — BitFieldVec is observationally a Vec of w-bit values.
//!
//! Inductive-step harnesses (DESIGN.md §1.1): arbitrary valid pre-state built
//! with `from_raw_parts` over fully symbolic words, one operation with
//! symbolic arguments, abstraction `alpha(v) = [get(0..len)]` compared with the
//! `Vec` model's step.
use crate::util::*;
use std::sync::atomic::Ordering;
use sux::bits::{AtomicBitFieldVec, BitFieldVec};
use sux::prelude::*;

macro_rules! c05_family {
    ($W:ty, $N:expr, $refget:ident, $EQUNW:literal, $GW:literal, $CW:literal) => {
        use super::super::*;
        type W = $W;
        const N: usize = $N;
        const B: usize = <W>::BITS as usize;
        type Arr = BitFieldVec<W, [W; N]>;

        fn wmask(w: usize) -> W {
            if w == 0 {
                0
            } else {
                <W>::MAX >> (B - w)
            }
        }

        /// Arbitrary valid pre-state over an array backend.
        fn any_arr() -> ([W; N], usize, usize) {
            let words: [W; N] = kani::any();
            let w: usize = kani::any();
            kani::assume(w <= B);
            let len: usize = kani::any();
            kani::assume(len <= 2 * N * B);
            kani::assume(len * w <= N * B);
            (words, w, len)
        }

        /// Pre-state for the multi-step Vec-backed harnesses (resize, extend):
        /// symbolic width for the narrow word types, the concrete width `$GW`
        /// (a straddling width) and a concrete length for the wide ones, where the symbolic-width
        /// version exhausts 16 GB.
        fn any_arr_cw() -> ([W; N], usize, usize) {
            if $CW {
                let words: [W; N] = kani::any();
                (words, $GW, N * B / $GW - 1)
            } else {
                any_arr()
            }
        }

        /// `get` against the double-width reference on the raw words.
        #[kani::proof]
        #[kani::unwind(6)]
        pub fn get_ref() {
            let (words, w, len) = any_arr();
            let v = unsafe { Arr::from_raw_parts(words, w, len) };
            let i: usize = kani::any();
            kani::assume(i < len);
            assert_eq!(v.get(i), $refget(&words, w, i));
            assert_eq!(v.len(), len);
            assert_eq!(BitFieldSliceCore::<W>::bit_width(&v), w);
            kani::cover!(w > 1 && (i * w) % B + w > B, "straddling element");
            kani::cover!(w == B, "full width");
            kani::cover!(w == 0, "zero width");
        }

        /// `set(i, x)`: element i reads x, every other element is unchanged.
        #[kani::proof]
        #[kani::unwind(6)]
        pub fn set_step() {
            let (words, w, len) = any_arr();
            let mut v = unsafe { Arr::from_raw_parts(words, w, len) };
            let i: usize = kani::any();
            let j: usize = kani::any();
            kani::assume(i < len && j < len && j != i);
            let x: W = kani::any();
            kani::assume(x & wmask(w) == x);
            v.set(i, x);
            assert_eq!(v.get(i), x);
            assert_eq!(v.get(j), $refget(&words, w, j));
            assert_eq!(v.len(), len);
            kani::cover!(w > 1 && (i * w) % B + w > B, "straddling element");
            kani::cover!(w == B, "full width");
        }

        /// `push(x)` from an arbitrary Vec-backed pre-state.
        #[kani::proof]
        #[kani::unwind(8)]
        pub fn push_step() {
            let (words, w, len) = any_arr();
            let mut v = unsafe { BitFieldVec::<W, Vec<W>>::from_raw_parts(words.to_vec(), w, len) };
            let x: W = kani::any();
            kani::assume(x & wmask(w) == x);
            let j: usize = kani::any();
            kani::assume(j < len);
            v.push(x);
            assert_eq!(v.len(), len + 1);
            assert_eq!(v.get(len), x);
            assert_eq!(v.get(j), $refget(&words, w, j));
            kani::cover!((len + 1) * w > N * B, "push grows the backend");
            kani::cover!((len + 1) * w <= N * B, "push into spare storage");
            std::mem::forget(v);
        }

        /// `pop()` from an arbitrary Vec-backed pre-state.
        #[kani::proof]
        #[kani::unwind(8)]
        pub fn pop_step() {
            let (words, w, len) = any_arr();
            let mut v = unsafe { BitFieldVec::<W, Vec<W>>::from_raw_parts(words.to_vec(), w, len) };
            let r = v.pop();
            if len == 0 {
                assert!(r.is_none());
                assert_eq!(v.len(), 0);
            } else {
                assert_eq!(r, Some($refget(&words, w, len - 1)));
                assert_eq!(v.len(), len - 1);
                let j: usize = kani::any();
                kani::assume(j < len - 1);
                assert_eq!(v.get(j), $refget(&words, w, j));
            }
            kani::cover!(len == 0, "pop on empty");
            kani::cover!(len > 1, "pop on non-empty");
            std::mem::forget(v);
        }

        /// `resize(new_len, x)` inside the existing backend: truncation keeps a
        /// prefix, growth (by at most 2 elements per step) appends copies of x.
        #[kani::proof]
        #[kani::unwind(4)]
        pub fn resize_step() {
            let (words, w, len) = any_arr_cw();
            let mut v = unsafe { BitFieldVec::<W, Vec<W>>::from_raw_parts(words.to_vec(), w, len) };
            let x: W = kani::any();
            kani::assume(x & wmask(w) == x);
            let new_len: usize = if $CW { len + 1 } else { kani::any() };
            kani::assume(new_len <= len + 2 && new_len * w <= N * B);
            v.resize(new_len, x);
            assert_eq!(v.len(), new_len);
            let j: usize = kani::any();
            kani::assume(j < new_len);
            if j < len {
                assert_eq!(v.get(j), $refget(&words, w, j));
            } else {
                assert_eq!(v.get(j), x);
            }
            kani::cover!(new_len > len, "resize grows in place");
            kani::cover!($CW || new_len < len, "resize truncates");
            std::mem::forget(v);
        }

        /// `resize` truncating by one element (concrete shape; the symbolic
        /// version is part of `resize_step` for the narrow word types).
        #[kani::proof]
        #[kani::unwind(4)]
        pub fn resize_trunc() {
            let (words, w, len) = any_arr_cw();
            kani::assume(len >= 1);
            let mut v = unsafe { BitFieldVec::<W, Vec<W>>::from_raw_parts(words.to_vec(), w, len) };
            let x: W = kani::any();
            kani::assume(x & wmask(w) == x);
            let new_len = if $CW { len - 1 } else { len / 2 };
            v.resize(new_len, x);
            assert_eq!(v.len(), new_len);
            let j: usize = kani::any();
            kani::assume(j < new_len);
            assert_eq!(v.get(j), $refget(&words, w, j));
            kani::cover!(true);
            std::mem::forget(v);
        }

        /// `resize` that has to grow the backend: concrete width `$GW` on a full
        /// backend, growth by 1 or 2 elements.
        #[kani::proof]
        #[kani::unwind(4)]
        pub fn resize_grow() {
            const GW: usize = $GW;
            const LEN: usize = N * B / GW;
            let words: [W; N] = kani::any();
            let mut v = unsafe { BitFieldVec::<W, Vec<W>>::from_raw_parts(words.to_vec(), GW, LEN) };
            let x: W = kani::any();
            kani::assume(x & wmask(GW) == x);
            let k: usize = if $CW { 2 } else { kani::any() };
            kani::assume(k >= 1 && k <= 2);
            v.resize(LEN + k, x);
            assert_eq!(v.len(), LEN + k);
            let j: usize = kani::any();
            kani::assume(j < LEN + k);
            if j < LEN {
                assert_eq!(v.get(j), $refget(&words, GW, j));
            } else {
                assert_eq!(v.get(j), x);
            }
            kani::cover!(k == 2);
            std::mem::forget(v);
        }

        /// `clear()` and a following `push`.
        #[kani::proof]
        #[kani::unwind(8)]
        pub fn clear_push() {
            let (words, w, len) = any_arr();
            let mut v = unsafe { BitFieldVec::<W, Vec<W>>::from_raw_parts(words.to_vec(), w, len) };
            v.clear();
            assert_eq!(v.len(), 0);
            assert!(v.pop().is_none());
            let x: W = kani::any();
            kani::assume(x & wmask(w) == x);
            v.push(x);
            assert_eq!(v.len(), 1);
            assert_eq!(v.get(0), x);
            kani::cover!(true);
            std::mem::forget(v);
        }

        /// `extend` with two values equals two pushes (inside the backend).
        #[kani::proof]
        #[kani::unwind(4)]
        pub fn extend_step() {
            let (words, w, len) = any_arr_cw();
            let mut v = unsafe { BitFieldVec::<W, Vec<W>>::from_raw_parts(words.to_vec(), w, len) };
            let x: [W; 2] = kani::any();
            kani::assume(x[0] & wmask(w) == x[0] && x[1] & wmask(w) == x[1]);
            // growth of the backend is decided by push_step
            kani::assume($CW || (len + 2) * w <= N * B);
            v.extend(x);
            assert_eq!(v.len(), len + 2);
            assert_eq!(v.get(len), x[0]);
            assert_eq!(v.get(len + 1), x[1]);
            let j: usize = kani::any();
            kani::assume(j < len);
            assert_eq!(v.get(j), $refget(&words, w, j));
            kani::cover!(true);
            std::mem::forget(v);
        }

        /// `iter_from(k)`: the first three items, exact `len()`/`size_hint()`.
        #[kani::proof]
        #[kani::unwind(6)]
        pub fn iter_from_prefix() {
            let (words, w, len) = any_arr();
            let v = unsafe { Arr::from_raw_parts(words, w, len) };
            let k: usize = kani::any();
            kani::assume(k <= len);
            let mut it = v.iter_from(k);
            let mut s = 0;
            while s < 3 {
                assert_eq!(it.len(), len - (k + s).min(len));
                assert_eq!(it.size_hint(), (len - (k + s).min(len), Some(len - (k + s).min(len))));
                let r = it.next();
                if k + s < len {
                    assert_eq!(r, Some($refget(&words, w, k + s)));
                } else {
                    assert!(r.is_none());
                }
                s += 1;
            }
            kani::cover!(k + 3 <= len && w > 1 && (k * w) % B + 3 * w > B, "iteration crosses a word");
            kani::cover!(k == len, "start at the end");
        }

        /// `iter()` / `IntoIterator` on a reference start at 0.
        #[kani::proof]
        #[kani::unwind(6)]
        pub fn iter_start() {
            let (words, w, len) = any_arr();
            let v = unsafe { Arr::from_raw_parts(words, w, len) };
            let mut a = v.iter();
            let mut b = (&v).into_iter();
            let mut c = (&v).into_iter_from(0);
            let ra = a.next();
            assert_eq!(ra, b.next());
            assert_eq!(ra, c.next());
            if len > 0 {
                assert_eq!(ra, Some($refget(&words, w, 0)));
            } else {
                assert!(ra.is_none());
            }
            kani::cover!(len > 0);
        }

        /// Forward unchecked iterator from a symbolic start: three items.
        #[kani::proof]
        #[kani::unwind(6)]
        pub fn unchecked_iter_prefix() {
            let (words, w, len) = any_arr();
            let v = unsafe { Arr::from_raw_parts(words, w, len) };
            let k: usize = kani::any();
            kani::assume(k <= len);
            let mut it = (&v).into_unchecked_iter_from(k);
            let mut s = 0;
            while s < 3 {
                if k + s < len {
                    let r = unsafe { it.next_unchecked() };
                    assert_eq!(r, $refget(&words, w, k + s));
                }
                s += 1;
            }
            kani::cover!(k + 3 <= len && w > 1 && (k * w) % B + 3 * w > B, "iteration crosses a word");
        }

        /// Reverse unchecked iterator from a symbolic start: three items.
        #[kani::proof]
        #[kani::unwind(6)]
        pub fn rev_unchecked_iter_prefix() {
            let (words, w, len) = any_arr();
            let v = unsafe { Arr::from_raw_parts(words, w, len) };
            let k: usize = kani::any();
            kani::assume(k <= len);
            let mut it = (&v).into_rev_unchecked_iter_from(k);
            let mut s = 0;
            while s < 3 {
                if k >= s + 1 {
                    let r = unsafe { it.next_unchecked() };
                    assert_eq!(r, $refget(&words, w, k - s - 1));
                }
                s += 1;
            }
            kani::cover!(k >= 3 && w > 1 && (k * w) % B < 3 * w && (k * w) >= B, "reverse iteration crosses a word");
            let mut full = (&v).into_rev_unchecked_iter();
            if len > 0 {
                assert_eq!(unsafe { full.next_unchecked() }, $refget(&words, w, len - 1));
            }
        }

        /// Equality: equal vectors have equal elements; vectors differing in
        /// one element, in length or in width are different.
        #[kani::proof]
        #[kani::unwind($EQUNW)]
        pub fn eq_sound() {
            let (words, w, len) = any_arr();
            let a = unsafe { Arr::from_raw_parts(words, w, len) };
            let words2: [W; N] = kani::any();
            let w2: usize = kani::any();
            let len2: usize = kani::any();
            kani::assume(w2 <= B && len2 <= 2 * N * B && len2 * w2 <= N * B);
            let b = unsafe { Arr::from_raw_parts(words2, w2, len2) };
            if a == b {
                assert!(w == w2 && len == len2);
                let i: usize = kani::any();
                kani::assume(i < len);
                assert_eq!($refget(&words, w, i), $refget(&words2, w, i));
            }
            kani::cover!(a == b && len > 1 && w > 0, "equal, non-trivial");
            kani::cover!(a != b);
        }

        /// Equality is complete: a vector differing from `a` only in storage
        /// outside the logical contents is equal to it; one differing in one
        /// element is not.
        #[kani::proof]
        #[kani::unwind($EQUNW)]
        pub fn eq_complete() {
            let (words, w, len) = any_arr();
            let a = unsafe { Arr::from_raw_parts(words, w, len) };
            let mut b = unsafe { Arr::from_raw_parts(words, w, len) };
            assert!(a == b);
            let i: usize = kani::any();
            kani::assume(i < len);
            let x: W = kani::any();
            kani::assume(x & wmask(w) == x && x != $refget(&words, w, i));
            b.set(i, x);
            assert!(a != b);
            assert!(b != a);
            kani::cover!(true);
        }

        /// Equality is observational: two vectors with the same width, length
        /// and elements are equal whatever their histories left in the
        /// storage beyond `len * w` (stale bits after pop / resize / clear).
        #[kani::proof]
        #[kani::unwind($EQUNW)]
        pub fn eq_ignores_stale() {
            let (a, w, len) = any_arr();
            let b: [W; N] = kani::any();
            let bl = len * w;
            let mut k = 0;
            while k < N {
                if B * k >= bl {
                    // unrelated storage
                } else if bl - B * k < B {
                    let m: W = (1 as W).wrapping_shl((bl - B * k) as u32).wrapping_sub(1);
                    kani::assume(a[k] & m == b[k] & m);
                } else {
                    kani::assume(a[k] == b[k]);
                }
                k += 1;
            }
            let x = unsafe { Arr::from_raw_parts(a, w, len) };
            let y = unsafe { Arr::from_raw_parts(b, w, len) };
            assert!(x == y);
            assert!(y == x);
            kani::cover!(len > 1 && bl % B != 0 && a[bl / B] != b[bl / B], "stale bits in the last word differ");
            kani::cover!(len > 0 && bl.div_ceil(B) < N && a[N - 1] != b[N - 1], "spare words differ");
        }

        /// Constructors: `new`, `new_unaligned`, `with_capacity` with a symbolic
        /// width and a concrete length.
        #[kani::proof]
        #[kani::unwind(8)]
        pub fn constructors() {
            let w: usize = kani::any();
            kani::assume(w <= B);
            let v = BitFieldVec::<W, Vec<W>>::new(w, 5);
            assert_eq!(v.len(), 5);
            assert_eq!(BitFieldSliceCore::<W>::bit_width(&v), w);
            assert_eq!(v.mask(), wmask(w));
            let i: usize = kani::any();
            kani::assume(i < 5);
            assert_eq!(v.get(i), 0);
            let u = BitFieldVec::<W, Vec<W>>::new_unaligned(w, 5);
            assert_eq!(u.len(), 5);
            assert_eq!(u.get(i), 0);
            assert!(u.as_slice().len() * B >= 5 * w + B);
            let c = BitFieldVec::<W, Vec<W>>::with_capacity(w, 5);
            assert_eq!(c.len(), 0);
            assert_eq!(BitFieldSliceCore::<W>::bit_width(&c), w);
            kani::cover!(true);
            std::mem::forget(v);
            std::mem::forget(u);
            std::mem::forget(c);
        }

        /// Growth from `with_capacity`: two pushes and a pop, for the widths
        /// 0, 1, `$GW` and `W::BITS` (concrete, so that the capacity is).
        fn with_capacity_push_w(w: usize) {
            let mut c = BitFieldVec::<W, Vec<W>>::with_capacity(w, 1);
            let x: [W; 2] = kani::any();
            kani::assume(x[0] & wmask(w) == x[0] && x[1] & wmask(w) == x[1]);
            c.push(x[0]);
            c.push(x[1]);
            assert_eq!(c.len(), 2);
            assert_eq!(c.get(0), x[0]);
            assert_eq!(c.get(1), x[1]);
            assert_eq!(c.pop(), Some(x[1]));
            assert_eq!(c.len(), 1);
            kani::cover!(true);
            std::mem::forget(c);
        }
        #[kani::proof]
        #[kani::unwind(4)]
        pub fn with_capacity_push_w0() {
            with_capacity_push_w(0);
        }
        #[kani::proof]
        #[kani::unwind(4)]
        pub fn with_capacity_push_w1() {
            with_capacity_push_w(1);
        }
        #[kani::proof]
        #[kani::unwind(4)]
        pub fn with_capacity_push_wg() {
            with_capacity_push_w($GW);
        }
        #[kani::proof]
        #[kani::unwind(4)]
        pub fn with_capacity_push_wfull() {
            with_capacity_push_w(B);
        }

        /// `set_len` within the backend and `addr_of`.
        #[kani::proof]
        #[kani::unwind(8)]
        pub fn set_len_addr_of() {
            let (words, w, len) = any_arr();
            let mut v = unsafe { BitFieldVec::<W, Vec<W>>::from_raw_parts(words.to_vec(), w, len) };
            let nl: usize = kani::any();
            kani::assume(nl <= 2 * N * B && nl * w <= N * B);
            unsafe { v.set_len(nl) };
            assert_eq!(v.len(), nl);
            let i: usize = kani::any();
            kani::assume(i < nl);
            assert_eq!(v.get(i), $refget(&words, w, i));
            let p = v.addr_of(i);
            let base = v.as_slice().as_ptr();
            assert_eq!(p as usize, base as usize + ((i * w) / B) * (B / 8));
            kani::cover!(true);
            std::mem::forget(v);
        }

        // ---- rejections: the call must not return normally -------------

        #[kani::proof]
        #[kani::unwind(6)]
        #[kani::should_panic]
        pub fn reject_set_index() {
            let (words, w, len) = any_arr();
            let mut v = unsafe { Arr::from_raw_parts(words, w, len) };
            let i: usize = kani::any();
            kani::assume(i >= len);
            v.set(i, 0);
            kani::cover!(true, "returned normally");
        }

        #[kani::proof]
        #[kani::unwind(6)]
        #[kani::should_panic]
        pub fn reject_get_index() {
            let (words, w, len) = any_arr();
            let v = unsafe { Arr::from_raw_parts(words, w, len) };
            let i: usize = kani::any();
            kani::assume(i >= len);
            let _ = v.get(i);
            kani::cover!(true, "returned normally");
        }

        #[kani::proof]
        #[kani::unwind(6)]
        #[kani::should_panic]
        pub fn reject_set_value() {
            let (words, w, len) = any_arr();
            let mut v = unsafe { Arr::from_raw_parts(words, w, len) };
            let i: usize = kani::any();
            kani::assume(i < len);
            let x: W = kani::any();
            kani::assume(x & wmask(w) != x);
            v.set(i, x);
            kani::cover!(true, "returned normally");
        }

        #[kani::proof]
        #[kani::unwind(8)]
        #[kani::should_panic]
        pub fn reject_push_value() {
            let (words, w, len) = any_arr();
            let mut v = unsafe { BitFieldVec::<W, Vec<W>>::from_raw_parts(words.to_vec(), w, len) };
            let x: W = kani::any();
            kani::assume(x & wmask(w) != x);
            v.push(x);
            kani::cover!(true, "returned normally");
        }

        #[kani::proof]
        #[kani::unwind(8)]
        #[kani::should_panic]
        pub fn reject_resize_value() {
            let (words, w, len) = any_arr();
            let mut v = unsafe { BitFieldVec::<W, Vec<W>>::from_raw_parts(words.to_vec(), w, len) };
            let x: W = kani::any();
            kani::assume(x & wmask(w) != x);
            v.resize(len, x);
            kani::cover!(true, "returned normally");
        }

        #[kani::proof]
        #[kani::unwind(6)]
        #[kani::should_panic]
        pub fn reject_iter_from() {
            let (words, w, len) = any_arr();
            let v = unsafe { Arr::from_raw_parts(words, w, len) };
            let k: usize = kani::any();
            kani::assume(k > len);
            let _ = v.iter_from(k);
            kani::cover!(true, "returned normally");
        }

    };
}

macro_rules! c05_from_slice {
    ($refget:ident) => {
        /// `from_slice` of two elements keeps them and picks the minimal width.
        #[kani::proof]
        #[kani::unwind(4)]
        #[kani::stub(alloc::fmt::format, crate::util::no_format)]
        #[kani::stub(std::backtrace::Backtrace::capture, crate::util::no_backtrace)]
        pub fn from_slice2() {
            let words: [W; N] = kani::any();
            let w: usize = kani::any();
            kani::assume(w <= B && 2 * w <= N * B);
            let s = unsafe { Arr::from_raw_parts(words, w, 2) };
            let r = BitFieldVec::<W, Vec<W>>::from_slice(&s);
            let v = match r {
                Ok(v) => v,
                Err(e) => {
                    std::mem::forget(e);
                    panic!("from_slice failed");
                }
            };
            assert_eq!(v.len(), 2);
            let i: usize = kani::any();
            kani::assume(i < 2);
            assert_eq!(v.get(i), $refget(&words, w, i));
            let m = $refget(&words, w, 0) | $refget(&words, w, 1);
            // the bit length of zero is one by definition (common_traits::UnsignedInt::len)
            assert_eq!(BitFieldSliceCore::<W>::bit_width(&v), if m == 0 { 1 } else { B - m.leading_zeros() as usize });
            kani::cover!(m == 0);
            kani::cover!(m == 8);
            std::mem::forget(v);
        }

    };
}

macro_rules! c05_atomic {
    ($A:ty, $refget:ident) => {
        /// Vec <-> Box <-> atomic conversions keep contents, width and length.
        #[kani::proof]
        #[kani::unwind(8)]
        pub fn conversions() {
            let (words, w, len) = any_arr();
            let i: usize = kani::any();
            kani::assume(i < len);
            let e = $refget(&words, w, i);
            let v = unsafe { BitFieldVec::<W, Vec<W>>::from_raw_parts(words.to_vec(), w, len) };
            let b: BitFieldVec<W, Box<[W]>> = v.into();
            assert_eq!(b.get(i), e);
            let ab: AtomicBitFieldVec<W, Box<[$A]>> = b.into();
            assert_eq!(ab.get_atomic(i, Ordering::Relaxed), e);
            let b: BitFieldVec<W, Box<[W]>> = ab.into();
            let v: BitFieldVec<W, Vec<W>> = b.into();
            let av: AtomicBitFieldVec<W, Vec<$A>> = v.into();
            assert_eq!(av.get_atomic(i, Ordering::Relaxed), e);
            assert_eq!(BitFieldSliceCore::<$A>::len(&av), len);
            let v: BitFieldVec<W, Vec<W>> = av.into();
            assert_eq!(v.get(i), e);
            assert_eq!(v.len(), len);
            assert_eq!(BitFieldSliceCore::<W>::bit_width(&v), w);
            let (raw, w2, len2) = v.into_raw_parts();
            assert!(w2 == w && len2 == len && raw.len() == N);
            kani::cover!(true);
            std::mem::forget(raw);
        }

        /// Slice-backed conversions to and from the atomic form.
        #[kani::proof]
        #[kani::unwind(8)]
        pub fn conversions_ref() {
            let (mut words, w, len) = any_arr();
            let i: usize = kani::any();
            kani::assume(i < len);
            let e = $refget(&words, w, i);
            let r = unsafe { BitFieldVec::<W, &[W]>::from_raw_parts(&words[..], w, len) };
            let ar: AtomicBitFieldVec<W, &[$A]> = r.into();
            assert_eq!(ar.get_atomic(i, Ordering::Relaxed), e);
            let r: BitFieldVec<W, &[W]> = ar.into();
            assert_eq!(r.get(i), e);
            let m = unsafe { BitFieldVec::<W, &mut [W]>::from_raw_parts(&mut words[..], w, len) };
            let am: AtomicBitFieldVec<W, &mut [$A]> = m.into();
            assert_eq!(am.get_atomic(i, Ordering::Relaxed), e);
            let m: BitFieldVec<W, &mut [W]> = am.into();
            assert_eq!(m.get(i), e);
            kani::cover!(true);
        }

        /// Single-threaded atomic get / set step.
        #[kani::proof]
        #[kani::unwind(6)]
        pub fn atomic_set_step() {
            let (words, w, len) = any_arr();
            kani::assume(w < B);
            let mut k = 0;
            let aw: [$A; N] = core::array::from_fn(|k| <$A>::new(words[k]));
            let v = unsafe { AtomicBitFieldVec::<W, [$A; N]>::from_raw_parts(aw, w, len) };
            let i: usize = kani::any();
            let j: usize = kani::any();
            kani::assume(i < len && j < len && j != i);
            assert_eq!(v.get_atomic(i, Ordering::Relaxed), $refget(&words, w, i));
            let x: W = kani::any();
            kani::assume(x & wmask(w) == x);
            v.set_atomic(i, x, Ordering::Relaxed);
            assert_eq!(v.get_atomic(i, Ordering::Relaxed), x);
            assert_eq!(v.get_atomic(j, Ordering::Relaxed), $refget(&words, w, j));
            assert_eq!(BitFieldSliceCore::<$A>::len(&v), len);
            assert_eq!(v.mask(), wmask(w));
            kani::cover!(w > 1 && (i * w) % B + w > B, "straddling element");
        }

        /// Full-width atomic set (the implementation handles it; see the
        /// debug-assertion note in DESIGN.md).
        #[kani::proof]
        #[kani::unwind(6)]
        pub fn atomic_set_full_width() {
            let words: [W; N] = kani::any();
            let aw: [$A; N] = core::array::from_fn(|k| <$A>::new(words[k]));
            let v = unsafe { AtomicBitFieldVec::<W, [$A; N]>::from_raw_parts(aw, B, N) };
            let i: usize = kani::any();
            let j: usize = kani::any();
            kani::assume(i < N && j < N && j != i);
            let x: W = kani::any();
            v.set_atomic(i, x, Ordering::Relaxed);
            assert_eq!(v.get_atomic(i, Ordering::Relaxed), x);
            assert_eq!(v.get_atomic(j, Ordering::Relaxed), words[j]);
            kani::cover!(true);
        }

        #[kani::proof]
        #[kani::unwind(6)]
        #[kani::should_panic]
        pub fn reject_atomic_set() {
            let (words, w, len) = any_arr();
            kani::assume(w < B);
            let aw: [$A; N] = core::array::from_fn(|k| <$A>::new(words[k]));
            let v = unsafe { AtomicBitFieldVec::<W, [$A; N]>::from_raw_parts(aw, w, len) };
            let i: usize = kani::any();
            let x: W = kani::any();
            kani::assume(i >= len || x & wmask(w) != x);
            v.set_atomic(i, x, Ordering::Relaxed);
            kani::cover!(true, "returned normally");
        }
    };
}

/// Quick tier: u8 (4 words: two-word straddles with tiny state) and usize.
pub mod q {
    pub mod u8_ {
        c05_family!(u8, 4, ref_get_u8, 6, 5, false);
        c05_atomic!(std::sync::atomic::AtomicU8, ref_get_u8);
        c05_from_slice!(ref_get_u8);
    }
    pub mod usize_ {
        c05_family!(usize, 3, ref_get_usize, 26, 63, true);
        c05_atomic!(std::sync::atomic::AtomicUsize, ref_get_usize);
    }

    use super::*;

    /// The `bit_field_vec!` forms.
    #[kani::proof]
    #[kani::unwind(8)]
    pub fn macro_forms() {
        let a = sux::bit_field_vec![5];
        assert!(a.len() == 0 && a.bit_width() == 5);
        let x: usize = kani::any();
        kani::assume(x < 64);
        let b = sux::bit_field_vec![6 => x; 3];
        assert!(b.len() == 3 && b.bit_width() == 6);
        let i: usize = kani::any();
        kani::assume(i < 3);
        assert_eq!(b.get(i), x);
        #[allow(deprecated)]
        let d = sux::bit_field_vec![6; 3; x];
        assert_eq!(d.get(i), x);
        let y: usize = kani::any();
        kani::assume(y < 1024);
        let c = sux::bit_field_vec![10; 4, y, 2];
        assert!(c.len() == 3 && c.bit_width() == 10);
        assert!(c.get(0) == 4 && c.get(1) == y && c.get(2) == 2);
        kani::cover!(true);
        std::mem::forget((a, b, c, d));
    }

    /// `from_slice` on values of bit length 3 or 4 (exact powers of two 4 and 8
    /// included): contents are kept and the width is the minimal one. (The
    /// version over all values is in the thorough tier: a symbolic width makes
    /// the allocation symbolic-sized.)
    #[kani::proof]
    #[kani::unwind(4)]
    #[kani::stub(alloc::fmt::format, crate::util::no_format)]
    #[kani::stub(std::backtrace::Backtrace::capture, crate::util::no_backtrace)]
    pub fn from_slice_len34() {
        let x: [u8; 2] = kani::any();
        kani::assume(x[0] >= 4 && x[0] < 16 && x[1] >= 4 && x[1] < 16);
        let v = match BitFieldVec::<u8, Vec<u8>>::from_slice(&x) {
            Ok(v) => v,
            Err(e) => {
                std::mem::forget(e);
                panic!("from_slice failed");
            }
        };
        assert_eq!(v.len(), 2);
        assert_eq!(v.get(0), x[0]);
        assert_eq!(v.get(1), x[1]);
        let m = x[0] | x[1];
        assert_eq!(BitFieldSliceCore::<u8>::bit_width(&v), 8 - m.leading_zeros() as usize);
        kani::cover!(x[0] == 4 && x[1] == 4, "maximum is an exact power of two");
        kani::cover!(x[0] == 8 && x[1] == 5);
        std::mem::forget(v);
    }

    /// Blanket slice implementations: a `Vec<W>`/array is a bit-field slice of
    /// width `W::BITS`.
    #[kani::proof]
    #[kani::unwind(8)]
    pub fn blanket_slices() {
        let mut a: [u16; 3] = kani::any();
        let a0 = a;
        let i: usize = kani::any();
        let j: usize = kani::any();
        kani::assume(i < 3 && j < 3 && i != j);
        assert_eq!(BitFieldSliceCore::<u16>::bit_width(&a), 16);
        assert_eq!(BitFieldSliceCore::<u16>::len(&a), 3);
        assert_eq!(BitFieldSlice::<u16>::get(&a, i), a0[i]);
        let x: u16 = kani::any();
        BitFieldSliceMut::<u16>::set(&mut a, i, x);
        assert!(a[i] == x && a[j] == a0[j]);
        kani::cover!(true);
    }
}

/// Thorough tier adds the other four word types.
#[cfg(feature = "c05_t")]
pub mod t {
    pub mod u16_ {
        c05_family!(u16, 4, ref_get_u16, 10, 11, false);
        c05_atomic!(std::sync::atomic::AtomicU16, ref_get_u16);
        c05_from_slice!(ref_get_u16);
    }
    pub mod u32_ {
        c05_family!(u32, 3, ref_get_u32, 14, 31, true);
        c05_atomic!(std::sync::atomic::AtomicU32, ref_get_u32);
    }
    pub mod u64_ {
        c05_family!(u64, 3, ref_get_u64, 26, 63, true);
        c05_atomic!(std::sync::atomic::AtomicU64, ref_get_u64);
    }
    pub mod u128_ {
        c05_family!(u128, 3, ref_get_u128, 50, 127, true);
    }
}
