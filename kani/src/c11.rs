//! C11 — every structure stays within its documented space overhead: the
//! clauses within reach (DESIGN.md §2 C11): rank structures, Select9 on
//! concrete contents, bit vectors / bit-field vectors, and the allocation of
//! Elias–Fano (number of lower bits, sizes of the two vectors) on the (n,u)
//! grid. Not claimed: the transcendental n(2+lg(u/n)) inequality off the grid,
//! static functions and filters.
use crate::ef_grid::log2_tab;
use crate::util::*;
use mem_dbg::{MemSize, SizeFlags};
use sux::bits::{BitFieldVec, BitVec};
use sux::dict::EliasFanoBuilder;
use sux::prelude::*;
use sux::rank_sel::{Rank9, RankSmall, Select9};

fn sz<T: MemSize>(x: &T) -> usize {
    x.mem_size(SizeFlags::default())
}

/// `overhead_bytes <= num/den * len/8 + slack` for a rank structure built
/// over `NW` zero words with logical length `LEN`.
macro_rules! rank_space {
    ($name:ident, $NW:expr, $LEN:expr, $build:expr, $num:expr, $den:expr, $slack:expr) => {
        #[kani::proof]
        #[kani::unwind(140)]
        pub fn $name() {
            const NW: usize = $NW;
            const LEN: usize = $LEN;
            let fill: bool = kani::any();
            let words = [if fill { !0usize } else { 0usize }; NW];
            let bits = unsafe { BitVec::from_raw_parts(words, LEN) };
            let base = sz(&bits);
            let r = ($build)(bits);
            let total = sz(&r);
            assert!(total >= base);
            let overhead = total - base;
            // bytes: overhead <= (num/den) * LEN / 8 + slack
            assert!(overhead * 8 * $den <= $num * LEN + $slack * 8 * $den, "space overhead above the documented fraction");
            kani::cover!(fill);
            kani::cover!(!fill);
            std::mem::forget(r);
        }
    };
}

/// Same with a concrete fill (Select9::new has loops driven by the contents).
macro_rules! space_concrete {
    ($name:ident, $NW:expr, $LEN:expr, $fill:expr, $build:expr, $num:expr, $den:expr, $slack:expr) => {
        #[kani::proof]
        #[kani::unwind(140)]
        pub fn $name() {
            const NW: usize = $NW;
            const LEN: usize = $LEN;
            let words = [$fill; NW];
            let bits = unsafe { BitVec::from_raw_parts(words, LEN) };
            let base = sz(&bits);
            let r = ($build)(bits);
            let total = sz(&r);
            assert!(total >= base);
            let overhead = total - base;
            assert!(overhead * 8 * $den <= $num * LEN + $slack * 8 * $den, "space overhead above the documented fraction");
            kani::cover!(true);
            std::mem::forget(r);
        }
    };
}

type Bv<const N: usize> = BitVec<[usize; N]>;

pub mod q {
    use super::*;
    // slack: two counter blocks plus the struct header (a few words)
    rank_space!(rank9_len4096, 64, 4096, |b: Bv<64>| Rank9::new(b), 25, 100, 96);
    rank_space!(rank9_len4097, 65, 4097, |b: Bv<65>| Rank9::new(b), 25, 100, 96);
    rank_space!(rank9_len1, 1, 1, |b: Bv<1>| Rank9::new(b), 25, 100, 96);
    rank_space!(rs0_len4096, 64, 4096, |b: Bv<64>| RankSmall::<2, 9, _, _, _>::new(b), 1875, 10000, 96);
    rank_space!(rs1_len4097, 65, 4097, |b: Bv<65>| RankSmall::<1, 9, _, _, _>::new(b), 1250, 10000, 96);
    rank_space!(rs2_len4096, 64, 4096, |b: Bv<64>| RankSmall::<1, 10, _, _, _>::new(b), 625, 10000, 96);
    rank_space!(rs3_len4097, 65, 4097, |b: Bv<65>| RankSmall::<1, 11, _, _, _>::new(b), 3125, 100000, 96);
    rank_space!(rs4_len8193, 129, 8193, |b: Bv<129>| RankSmall::<3, 13, _, _, _>::new(b), 15625, 1000000, 96);

    /// `BitVec::new(len)`: one bit per element rounded up to words, plus the header.
    #[kani::proof]
    #[kani::unwind(4)]
    pub fn bitvec_space() {
        let len: usize = kani::any();
        kani::assume(len <= 1 << 20);
        let v = BitVec::new(len);
        assert_eq!(sz(&v), core::mem::size_of::<BitVec>() + len.div_ceil(64) * 8);
        kani::cover!(len % 64 == 1);
        std::mem::forget(v);
    }

    /// `BitFieldVec::new(w, len)`: `len * w` bits rounded up to words (at
    /// least one), plus the header; `new_unaligned` adds one padding word.
    #[kani::proof]
    #[kani::unwind(4)]
    pub fn bitfieldvec_space() {
        let len: usize = kani::any();
        let w: usize = kani::any();
        kani::assume(len <= 1 << 16 && w <= 64);
        let v = BitFieldVec::<usize>::new(w, len);
        let words = (len * w).div_ceil(64);
        assert_eq!(sz(&v), core::mem::size_of::<BitFieldVec<usize>>() + words.max(1) * 8);
        let u = BitFieldVec::<usize>::new_unaligned(w, len);
        assert_eq!(sz(&u), core::mem::size_of::<BitFieldVec<usize>>() + (words + 1) * 8);
        kani::cover!(w == 0 && len > 0);
        kani::cover!((len * w) % 64 == 1);
        std::mem::forget((v, u));
    }

    /// A vector grown by `push` from `with_capacity` takes `len * w` bits
    /// rounded up to whole words (at least one), like one built by `new`.
    #[kani::proof]
    #[kani::unwind(6)]
    pub fn bitfieldvec_grown_space() {
        let w: usize = kani::any();
        kani::assume(w == 0 || w == 1 || w == 33 || w == 64);
        let mut v = BitFieldVec::<usize>::with_capacity(w, 0);
        v.push(0);
        v.push(0);
        v.push(0);
        let words = (3 * w).div_ceil(64).max(1);
        assert_eq!(v.as_slice().len(), words);
        kani::cover!(w == 0);
        kani::cover!(w == 33);
        std::mem::forget(v);
    }

    /// Narrow word types.
    #[kani::proof]
    #[kani::unwind(4)]
    pub fn bitfieldvec_space_u16() {
        let len: usize = kani::any();
        let w: usize = kani::any();
        kani::assume(len <= 1 << 16 && w <= 16);
        let v = BitFieldVec::<u16>::new(w, len);
        assert_eq!(sz(&v), core::mem::size_of::<BitFieldVec<u16>>() + (len * w).div_ceil(16).max(1) * 2);
        kani::cover!((len * w) % 16 == 1);
        std::mem::forget(v);
    }

    macro_rules! ef_alloc {
        ($name:ident, $n:expr, $u:expr, $l:expr) => {
            /// Elias–Fano allocation at one grid point: `l = floor(lg(u/n))`
            /// lower bits per element (as computed by the platform libm for
            /// this ratio, see ef_grid.rs), `n` lower-bit fields, and
            /// `n + (u >> l) + 1` upper bits; `mem_size` is those plus headers.
            #[kani::proof]
            #[kani::unwind(8)]
            #[kani::stub(f64::log2, log2_tab)]
            pub fn $name() {
                const N: usize = $n;
                const U: usize = $u;
                const L: usize = $l;
                let ef = EliasFanoBuilder::new(N, U).build();
                let total = sz(&ef);
                let ef = unsafe {
                    ef.map_low_bits(|lb| {
                        assert_eq!(BitFieldSliceCore::<usize>::bit_width(&lb), L);
                        assert_eq!(BitFieldSliceCore::<usize>::len(&lb), N);
                        lb
                    })
                };
                let ef = unsafe {
                    ef.map_high_bits(|hb| {
                        assert_eq!(hb.len(), N + (U >> L) + 1);
                        hb
                    })
                };
                let low_words = (N * L).div_ceil(64).max(1);
                let high_words = (N + (U >> L) + 1).div_ceil(64);
                assert_eq!(total, core::mem::size_of_val(&ef) + 8 * (low_words + high_words));
                // the documented bound: at most 2 + ceil(lg(u/n)) bits per element, plus a constant
                if N > 0 && U >= N {
                    assert!(N * L + N + (U >> L) + 1 <= N * (2 + L + 1) + 1);
                }
                kani::cover!(true);
                std::mem::forget(ef);
            }
        };
    }
    pub mod ef {
        use super::super::*;
        use crate::ef_grid_q;
        ef_grid_q!(ef_alloc);
    }
}

#[cfg(feature = "c11_t")]
pub mod t {
    use super::*;
    rank_space!(rank9_len512, 8, 512, |b: Bv<8>| Rank9::new(b), 25, 100, 96);
    rank_space!(rank9_len513, 9, 513, |b: Bv<9>| Rank9::new(b), 25, 100, 96);
    rank_space!(rs0_len4097, 65, 4097, |b: Bv<65>| RankSmall::<2, 9, _, _, _>::new(b), 1875, 10000, 96);
    rank_space!(rs1_len4096, 64, 4096, |b: Bv<64>| RankSmall::<1, 9, _, _, _>::new(b), 1250, 10000, 96);
    rank_space!(rs2_len4097, 65, 4097, |b: Bv<65>| RankSmall::<1, 10, _, _, _>::new(b), 625, 10000, 96);
    rank_space!(rs3_len4096, 64, 4096, |b: Bv<64>| RankSmall::<1, 11, _, _, _>::new(b), 3125, 100000, 96);
    rank_space!(rs4_len8192, 128, 8192, |b: Bv<128>| RankSmall::<3, 13, _, _, _>::new(b), 15625, 1000000, 96);
    // Select9 over Rank9: at most a further 37.5% (concrete contents: the
    // data-dependent loops of Select9::new fold)
    space_concrete!(select9_zeros_len512, 8, 512, 0usize, |b: Bv<8>| Select9::new(Rank9::new(b)), 625, 1000, 200);
    space_concrete!(select9_ones_len1024, 16, 1024, !0usize, |b: Bv<16>| Select9::new(Rank9::new(b)), 625, 1000, 200);
    space_concrete!(select9_ones_len512, 8, 512, !0usize, |b: Bv<8>| Select9::new(Rank9::new(b)), 625, 1000, 200);

    pub mod ef {
        use super::super::*;
        use crate::ef_grid_t;
        macro_rules! ef_alloc_t {
            ($name:ident, $n:expr, $u:expr, $l:expr) => {
                #[kani::proof]
                #[kani::unwind(8)]
                #[kani::stub(f64::log2, log2_tab)]
                pub fn $name() {
                    const N: usize = $n;
                    const U: usize = $u;
                    const L: usize = $l;
                    let ef = EliasFanoBuilder::new(N, U).build();
                    let ef = unsafe {
                        ef.map_low_bits(|lb| {
                            assert_eq!(BitFieldSliceCore::<usize>::bit_width(&lb), L);
                            assert_eq!(BitFieldSliceCore::<usize>::len(&lb), N);
                            lb
                        })
                    };
                    let ef = unsafe {
                        ef.map_high_bits(|hb| {
                            assert_eq!(hb.len(), N + (U >> L) + 1);
                            hb
                        })
                    };
                    kani::cover!(true);
                    std::mem::forget(ef);
                }
            };
        }
        ef_grid_t!(ef_alloc_t);
    }
}
