use sux::prelude::*;
use sux::bits::BitFieldVec;

pub mod q {
    use super::*;
    #[kani::proof]
    #[kani::unwind(6)]
    pub fn copy_u8() {
        const B: usize = 8;
        let src: [u8; 4] = kani::any();
        let dst: [u8; 4] = kani::any();
        let w: usize = kani::any();
        kani::assume(w >= 1 && w <= B);
        let n = 4 * B / w;
        let s = unsafe { BitFieldVec::<u8, [u8; 4]>::from_raw_parts(src, w, n) };
        let mut d = unsafe { BitFieldVec::<u8, [u8; 4]>::from_raw_parts(dst, w, n) };
        let d0 = unsafe { BitFieldVec::<u8, [u8; 4]>::from_raw_parts(dst, w, n) };
        let from: usize = kani::any();
        let to: usize = kani::any();
        let len: usize = kani::any();
        kani::assume(from < n && to < n && len <= n);
        s.copy(from, &mut d, to, len);
        let eff = len.min(n - from).min(n - to);
        let q: usize = kani::any();
        kani::assume(q < n);
        if q >= to && q < to + eff {
            assert_eq!(d.get(q), s.get(from + q - to));
        } else {
            assert_eq!(d.get(q), d0.get(q));
        }
        kani::cover!(true);
    }
}
