//! C10 — bulk operations equal their documented element-by-element definitions.
use crate::util::*;
use std::sync::atomic::{AtomicUsize, Ordering};
use sux::bits::{AtomicBitFieldVec, AtomicBitVec, BitFieldVec, BitVec};
use sux::prelude::*;

/// A third-party-style implementor that only provides the required methods of
/// the slice traits, so that the trait-default `copy`, `set`, `mask`,
/// `apply_in_place` and `apply_in_place_unchecked` are the code under test.
pub struct Plain<W: Word, const N: usize>(pub BitFieldVec<W, [W; N]>);
impl<W: Word, const N: usize> BitFieldSliceCore<W> for Plain<W, N> {
    fn bit_width(&self) -> usize {
        BitFieldSliceCore::<W>::bit_width(&self.0)
    }
    fn len(&self) -> usize {
        BitFieldSliceCore::<W>::len(&self.0)
    }
}
impl<W: Word, const N: usize> BitFieldSlice<W> for Plain<W, N> {
    unsafe fn get_unchecked(&self, index: usize) -> W {
        self.0.get_unchecked(index)
    }
}
impl<W: Word, const N: usize> BitFieldSliceMut<W> for Plain<W, N> {
    unsafe fn set_unchecked(&mut self, index: usize, value: W) {
        self.0.set_unchecked(index, value)
    }
    fn reset(&mut self) {
        self.0.reset()
    }
    type ChunksMut<'a>
        = <BitFieldVec<W, [W; N]> as BitFieldSliceMut<W>>::ChunksMut<'a>
    where
        Self: 'a;
    fn try_chunks_mut(&mut self, chunk_size: usize) -> Result<Self::ChunksMut<'_>, ()> {
        self.0.try_chunks_mut(chunk_size)
    }
    fn as_mut_slice(&mut self) -> &mut [W] {
        self.0.as_mut_slice()
    }
}

macro_rules! c10_family {
    ($W:ty, $N:expr, $NC:expr, $refget:ident, $APPLY_MAX:expr) => {
        use super::super::*;
        type W = $W;
        const N: usize = $N;
        const B: usize = <W>::BITS as usize;
        type Arr = BitFieldVec<W, [W; N]>;
        /// Words of each vector in the `copy` harnesses.
        const NC: usize = $NC;
        type ArrC = BitFieldVec<W, [W; NC]>;

        fn wmask(w: usize) -> W {
            if w == 0 {
                0
            } else {
                <W>::MAX >> (B - w)
            }
        }

        /// `copy` with a concrete width (wide word types: the symbolic-width
        /// query does not finish in the quick budget): words, `from`, `to`,
        /// `len` symbolic, vectors of possibly different lengths.
        fn copy_cw(w: usize) {
            let src: [W; N] = kani::any();
            let dst: [W; N] = kani::any();
            let n = N * B / w;
            let ns: usize = kani::any();
            let nd: usize = kani::any();
            kani::assume(ns <= n && nd <= n);
            let s = unsafe { Arr::from_raw_parts(src, w, ns) };
            let mut d = unsafe { Arr::from_raw_parts(dst, w, nd) };
            let from: usize = kani::any();
            let to: usize = kani::any();
            let len: usize = kani::any();
            kani::assume(from <= ns && to <= nd);
            s.copy(from, &mut d, to, len);
            let eff = len.min(ns - from).min(nd - to);
            let q: usize = kani::any();
            kani::assume(q < nd);
            if q >= to && q < to + eff {
                assert_eq!(d.get(q), $refget(&src, w, from + q - to));
            } else {
                assert_eq!(d.get(q), $refget(&dst, w, q));
            }
            if eff > 0 {
                let bl = eff * w;
                let (sp, dp) = (from * w, to * w);
                let s1 = sp / B == (sp + bl - 1) / B;
                let d1 = dp / B == (dp + bl - 1) / B;
                kani::cover!(w == B || (!s1 && !d1 && sp % B < dp % B), "copy: multiword src_bit < dst_bit");
                kani::cover!(w == B || (!s1 && !d1 && sp % B > dp % B), "copy: multiword src_bit > dst_bit");
                kani::cover!(!s1 && !d1 && sp % B == dp % B, "copy: multiword aligned");
            }
        }
        #[kani::proof]
        #[kani::unwind(6)]
        pub fn copy_w5() {
            copy_cw(5);
        }
        #[kani::proof]
        #[kani::unwind(6)]
        pub fn copy_wm1() {
            copy_cw(B - 1);
        }
        #[kani::proof]
        #[kani::unwind(6)]
        pub fn copy_wfull() {
            copy_cw(B);
        }

        /// `apply_in_place`: `f` is called exactly `len` times, in index
        /// order, on the current values, and each result is stored; the
        /// backend may have spare words.
        fn apply_in_place_path(pow2: bool) {
            const K: usize = $APPLY_MAX;
            let words: [W; N] = kani::any();
            let w: usize = kani::any();
            kani::assume(w >= 1 && w <= B && w.is_power_of_two() == pow2);
            let len: usize = kani::any();
            kani::assume(len <= K && len * w <= N * B);
            let mut v = unsafe { Arr::from_raw_parts(words, w, len) };
            let table: [W; K] = kani::any();
            let mut seen: [W; K] = [0; K];
            let mut calls = 0usize;
            v.apply_in_place(|x| {
                assert!(calls < K);
                seen[calls] = x;
                let r = table[calls] & wmask(w);
                calls += 1;
                r
            });
            assert_eq!(calls, len);
            let q: usize = kani::any();
            kani::assume(q < len);
            assert_eq!(seen[q], $refget(&words, w, q));
            assert_eq!(v.get(q), table[q] & wmask(w));
            kani::cover!(len == K, "full length");
            kani::cover!(len > 1 && (!pow2 || w < B), "several elements");
            kani::cover!(len > 0 && (len * w).div_ceil(B) < N, "spare trailing words");
            kani::cover!(!pow2 || (len > 0 && w == B), "full width");
        }

        /// `apply_in_place`, power-of-two widths (the buffered fast path and the full-width case).
        #[kani::proof]
        #[kani::unwind(10)]
        pub fn apply_in_place_pow2() {
            apply_in_place_path(true);
        }

        /// `apply_in_place`, all other widths (the general path).
        #[kani::proof]
        #[kani::unwind(10)]
        pub fn apply_in_place_general() {
            apply_in_place_path(false);
        }

        /// Trait-default `apply_in_place` on a plain implementor.
        #[kani::proof]
        #[kani::unwind(6)]
        pub fn apply_default() {
            const K: usize = 3;
            let words: [W; N] = kani::any();
            let w: usize = kani::any();
            kani::assume(w >= 1 && w <= B);
            let len: usize = kani::any();
            kani::assume(len <= K && len * w <= N * B);
            let mut v = Plain(unsafe { Arr::from_raw_parts(words, w, len) });
            let table: [W; K] = kani::any();
            let mut seen: [W; K] = [0; K];
            let mut calls = 0usize;
            v.apply_in_place(|x| {
                assert!(calls < K);
                seen[calls] = x;
                let r = table[calls] & wmask(w);
                calls += 1;
                r
            });
            assert_eq!(calls, len);
            let q: usize = kani::any();
            kani::assume(q < len);
            assert_eq!(seen[q], $refget(&words, w, q));
            assert_eq!(v.0.get(q), table[q] & wmask(w));
            kani::cover!(len == K);
        }

        /// `apply_in_place` with a function whose result does not fit must
        /// not return normally.
        #[kani::proof]
        #[kani::unwind(10)]
        #[kani::should_panic]
        pub fn reject_apply_value() {
            let words: [W; N] = kani::any();
            let w: usize = kani::any();
            kani::assume(w >= 1 && w < B);
            let len: usize = kani::any();
            kani::assume(len >= 1 && len <= 2 && len * w <= N * B);
            let mut v = unsafe { Arr::from_raw_parts(words, w, len) };
            let bad: W = kani::any();
            kani::assume(bad & wmask(w) != bad);
            v.apply_in_place(|_| bad);
            kani::cover!(true, "returned normally");
        }

        /// `reset`: every element reads zero afterwards.
        #[kani::proof]
        #[kani::unwind(6)]
        pub fn reset() {
            let words: [W; N] = kani::any();
            let w: usize = kani::any();
            kani::assume(w <= B);
            let len: usize = kani::any();
            kani::assume(len <= 2 * N * B && len * w <= N * B);
            let mut v = unsafe { Arr::from_raw_parts(words, w, len) };
            v.reset();
            let q: usize = kani::any();
            kani::assume(q < len);
            assert_eq!(v.get(q), 0);
            assert_eq!(v.len(), len);
            kani::cover!(len > 0 && (len * w) % B != 0, "partial last word");
            kani::cover!(len > 0 && w > 0 && (len * w) % B == 0, "whole words");
        }

        /// `try_chunks_mut`: `Err` exactly when documented; chunk `c` element
        /// `i` is element `c * chunk_size + i` of the parent, for reads and
        /// writes, and chunk lengths follow `len`.
        #[kani::proof]
        #[kani::unwind(6)]
        pub fn chunks() {
            let words: [W; N] = kani::any();
            let w: usize = kani::any();
            kani::assume(w >= 1 && w <= B);
            let len: usize = kani::any();
            kani::assume(len >= 1 && len <= N * B && len * w <= N * B);
            let mut v = unsafe { Arr::from_raw_parts(words, w, len) };
            let cs: usize = kani::any();
            kani::assume(cs >= 1 && cs <= len + 1);
            let should_ok = len <= cs || (cs * w) % B == 0;
            let x: W = kani::any();
            kani::assume(x & wmask(w) == x);
            let c: usize = kani::any();
            kani::assume(c < 3);
            let i: usize = kani::any();
            let mut wrote: Option<usize> = None;
            match v.try_chunks_mut(cs) {
                Err(()) => assert!(!should_ok),
                Ok(mut it) => {
                    assert!(should_ok);
                    let mut k = 0;
                    while k < 3 {
                        let ch = it.next();
                        let exp_len = if k * cs >= len { 0 } else { cs.min(len - k * cs) };
                        match ch {
                            None => assert!(exp_len == 0),
                            Some(mut ch) => {
                                assert_eq!(BitFieldSliceCore::<W>::len(&ch), exp_len);
                                if k == c && i < exp_len {
                                    assert_eq!(ch.get(i), $refget(&words, w, k * cs + i));
                                    ch.set(i, x);
                                    wrote = Some(k * cs + i);
                                }
                            }
                        }
                        k += 1;
                    }
                }
            }
            if let Some(p) = wrote {
                assert_eq!(v.get(p), x);
                let q: usize = kani::any();
                kani::assume(q < len && q != p);
                assert_eq!(v.get(q), $refget(&words, w, q));
            }
            kani::cover!(wrote.is_some() && c == 1, "wrote through the second chunk");
            kani::cover!(!should_ok, "documented error case");
        }

        /// `get_unaligned(i) == get(i)` whenever the documented
        /// preconditions hold (admissible width, one padding word).
        #[kani::proof]
        #[kani::unwind(6)]
        pub fn unaligned() {
            let words: [W; N] = kani::any();
            let w: usize = kani::any();
            kani::assume(w <= B);
            kani::assume(w + 6 <= B || w + 4 == B || w == B);
            let len: usize = kani::any();
            // an additional padding word at the end of the vector
            kani::assume(len <= 2 * N * B && (len * w).div_ceil(B) + 1 <= N);
            let v = unsafe { Arr::from_raw_parts(words, w, len) };
            let i: usize = kani::any();
            kani::assume(i < len);
            assert_eq!(v.get_unaligned(i), $refget(&words, w, i));
            kani::cover!(B < 16 || (w > 1 && (i * w) % B + w > B), "straddling element");
            kani::cover!((i * w) / B >= 1, "element beyond the first word");
        }

        /// `get_unaligned` with an inadmissible width or index must not return.
        #[kani::proof]
        #[kani::unwind(6)]
        #[kani::should_panic]
        pub fn reject_unaligned() {
            let words: [W; N] = kani::any();
            let w: usize = kani::any();
            kani::assume(w <= B);
            let len: usize = kani::any();
            kani::assume(len <= 2 * N * B && len * w <= N * B);
            let v = unsafe { Arr::from_raw_parts(words, w, len) };
            let i: usize = kani::any();
            kani::assume(!(w + 6 <= B || w + 4 == B || w == B) || i >= len);
            let _ = v.get_unaligned(i);
            kani::cover!(true, "returned normally");
        }
    };
}

macro_rules! c10_copy_sym {
    ($refget:ident) => {
        /// `copy`: all words of source and destination, the width, `from`,
        /// `to` and `len` symbolic; a symbolic probe index reads either the
        /// copied source element or the old destination element.
        #[kani::proof]
        #[kani::unwind(6)]
        pub fn copy() {
            let src: [W; NC] = kani::any();
            let dst: [W; NC] = kani::any();
            let w: usize = kani::any();
            kani::assume(w >= 1 && w <= B);
            let n = NC * B / w;
            let s = unsafe { ArrC::from_raw_parts(src, w, n) };
            let mut d = unsafe { ArrC::from_raw_parts(dst, w, n) };
            let from: usize = kani::any();
            let to: usize = kani::any();
            let len: usize = kani::any();
            kani::assume(from < n && to < n && len <= n);
            s.copy(from, &mut d, to, len);
            let eff = len.min(n - from).min(n - to);
            let q: usize = kani::any();
            kani::assume(q < n);
            if q >= to && q < to + eff {
                assert_eq!(d.get(q), $refget(&src, w, from + q - to));
            } else {
                assert_eq!(d.get(q), $refget(&dst, w, q));
            }
            // the six branches of the implementation
            if eff > 0 {
                let bl = eff * w;
                let (sp, dp) = (from * w, to * w);
                let s1 = sp / B == (sp + bl - 1) / B;
                let d1 = dp / B == (dp + bl - 1) / B;
                kani::cover!(s1 && d1, "copy: both spans in one word");
                kani::cover!(s1 && !d1, "copy: source in one word");
                kani::cover!(!s1 && d1, "copy: destination in one word");
                kani::cover!(!s1 && !d1 && sp % B == dp % B, "copy: multiword aligned");
                kani::cover!(!s1 && !d1 && sp % B < dp % B, "copy: multiword src_bit < dst_bit");
                kani::cover!(!s1 && !d1 && sp % B > dp % B, "copy: multiword src_bit > dst_bit");
            }
        }

        /// `copy` between vectors of different lengths (source shorter than
        /// the destination and vice versa), clipping included.
        #[kani::proof]
        #[kani::unwind(6)]
        pub fn copy_lengths() {
            let src: [W; NC] = kani::any();
            let dst: [W; NC] = kani::any();
            let w: usize = kani::any();
            kani::assume(w >= 1 && w <= B);
            let n = NC * B / w;
            let ns: usize = kani::any();
            let nd: usize = kani::any();
            kani::assume(ns <= n && nd <= n);
            let s = unsafe { ArrC::from_raw_parts(src, w, ns) };
            let mut d = unsafe { ArrC::from_raw_parts(dst, w, nd) };
            let from: usize = kani::any();
            let to: usize = kani::any();
            let len: usize = kani::any();
            kani::assume(from <= ns && to <= nd);
            s.copy(from, &mut d, to, len);
            let eff = len.min(ns - from).min(nd - to);
            let q: usize = kani::any();
            kani::assume(q < nd);
            if q >= to && q < to + eff {
                assert_eq!(d.get(q), $refget(&src, w, from + q - to));
            } else {
                assert_eq!(d.get(q), $refget(&dst, w, q));
            }
            assert_eq!(d.len(), nd);
            kani::cover!(eff > 2 && eff < len, "clipped copy");
            kani::cover!(from == ns || to == nd, "copy starting at the end");
        }

        /// Trait-default `copy` (element loop) on a plain implementor.
        #[kani::proof]
        #[kani::unwind(5)]
        pub fn copy_default() {
            let src: [W; NC] = kani::any();
            let dst: [W; NC] = kani::any();
            let w: usize = kani::any();
            kani::assume(w >= 1 && w <= B);
            let n = NC * B / w;
            let s = Plain(unsafe { ArrC::from_raw_parts(src, w, n) });
            let mut d = Plain(unsafe { ArrC::from_raw_parts(dst, w, n) });
            let from: usize = kani::any();
            let to: usize = kani::any();
            let len: usize = kani::any();
            kani::assume(from < n && to < n && len <= 3);
            s.copy(from, &mut d, to, len);
            let eff = len.min(n - from).min(n - to);
            let q: usize = kani::any();
            kani::assume(q < n);
            if q >= to && q < to + eff {
                assert_eq!(d.0.get(q), $refget(&src, w, from + q - to));
            } else {
                assert_eq!(d.0.get(q), $refget(&dst, w, q));
            }
            kani::cover!(eff == 3);
        }

    };
}

macro_rules! c10_atomic {
    ($A:ty, $refget:ident) => {
        /// `reset_atomic`: every element reads zero afterwards.
        #[kani::proof]
        #[kani::unwind(6)]
        pub fn reset_atomic() {
            let words: [W; N] = kani::any();
            let w: usize = kani::any();
            kani::assume(w <= B);
            let len: usize = kani::any();
            kani::assume(len <= 2 * N * B && len * w <= N * B);
            let aw: [$A; N] = core::array::from_fn(|k| <$A>::new(words[k]));
            let mut v = unsafe { AtomicBitFieldVec::<W, [$A; N]>::from_raw_parts(aw, w, len) };
            v.reset_atomic(Ordering::Relaxed);
            let q: usize = kani::any();
            kani::assume(q < len);
            assert_eq!(v.get_atomic(q, Ordering::Relaxed), 0);
            kani::cover!(len > 0 && (len * w) % B != 0, "partial last word");
        }
    };
}

pub mod q {
    pub mod u8_ {
        c10_family!(u8, 4, 4, ref_get_u8, 8);
        c10_copy_sym!(ref_get_u8);
        c10_atomic!(std::sync::atomic::AtomicU8, ref_get_u8);
    }
    pub mod usize_ {
        c10_family!(usize, 3, 2, ref_get_usize, 4);
        c10_atomic!(std::sync::atomic::AtomicUsize, ref_get_usize);
    }
    pub mod u32_unaligned {
        //! `get_unaligned` for a word type that is not 8 bytes wide.
        use super::super::*;
        #[kani::proof]
        #[kani::unwind(6)]
        pub fn unaligned() {
            const N: usize = 3;
            const B: usize = 32;
            let words: [u32; N] = kani::any();
            let w: usize = kani::any();
            kani::assume(w <= B);
            kani::assume(w + 6 <= B || w + 4 == B || w == B);
            let len: usize = kani::any();
            kani::assume(len <= 2 * N * B && (len * w).div_ceil(B) + 1 <= N);
            let v = unsafe { BitFieldVec::<u32, [u32; N]>::from_raw_parts(words, w, len) };
            let i: usize = kani::any();
            kani::assume(i < len);
            assert_eq!(v.get_unaligned(i), ref_get_u32(&words, w, i));
            kani::cover!(w > 1 && (i * w) % B + w > B, "straddling element");
            kani::cover!((i * w) / B >= 1, "element beyond the first word");
        }
    }

    use super::*;
    const NB: usize = 3;

    fn any_bv() -> ([usize; NB], usize) {
        let words: [usize; NB] = kani::any();
        let len: usize = kani::any();
        kani::assume(len <= 64 * NB);
        (words, len)
    }

    /// `BitVec::fill` / `reset`: every bit below `len` reads the value.
    #[kani::proof]
    #[kani::unwind(5)]
    pub fn bitvec_fill_reset() {
        let (words, len) = any_bv();
        let mut v = unsafe { BitVec::from_raw_parts(words, len) };
        let val: bool = kani::any();
        v.fill(val);
        let q: usize = kani::any();
        kani::assume(q < len);
        assert_eq!(v.get(q), val);
        v.reset();
        assert_eq!(v.get(q), false);
        assert_eq!(v.len(), len);
        kani::cover!(len % 64 != 0 && len > 64, "partial last word");
    }

    /// `BitVec::flip`: every bit below `len` is negated.
    #[kani::proof]
    #[kani::unwind(5)]
    pub fn bitvec_flip() {
        let (words, len) = any_bv();
        let mut v = unsafe { BitVec::from_raw_parts(words, len) };
        v.flip();
        let q: usize = kani::any();
        kani::assume(q < len);
        assert_eq!(v.get(q), !bit(&words, q));
        kani::cover!(len % 64 != 0 && len > 64, "partial last word");
    }

    /// `AtomicBitVec::{fill,reset,flip}` single-threaded.
    #[kani::proof]
    #[kani::unwind(5)]
    pub fn atomic_bitvec_fill_flip() {
        let (words, len) = any_bv();
        let aw: [AtomicUsize; NB] = core::array::from_fn(|k| AtomicUsize::new(words[k]));
        let mut v = unsafe { AtomicBitVec::from_raw_parts(aw, len) };
        let q: usize = kani::any();
        kani::assume(q < len);
        v.flip(Ordering::Relaxed);
        assert_eq!(v.get(q, Ordering::Relaxed), !bit(&words, q));
        let val: bool = kani::any();
        v.fill(val, Ordering::Relaxed);
        assert_eq!(v.get(q, Ordering::Relaxed), val);
        v.reset(Ordering::Relaxed);
        assert_eq!(v.get(q, Ordering::Relaxed), false);
        kani::cover!(len % 64 != 0 && len > 64, "partial last word");
    }

    /// `count_ones` on clean and dirty storage agree (relational part of the
    /// split of DESIGN.md §1.2; the residual family is in C06).
    #[kani::proof]
    #[kani::unwind(5)]
    pub fn bitvec_count_relational() {
        let (words, len) = any_bv();
        let mut clean = words;
        let mut k = 0;
        while k < NB {
            if 64 * k >= len {
                clean[k] = 0;
            } else if len - 64 * k < 64 {
                clean[k] &= lowmask(len - 64 * k);
            }
            k += 1;
        }
        let a = unsafe { BitVec::from_raw_parts(words, len) };
        let b = unsafe { BitVec::from_raw_parts(clean, len) };
        assert_eq!(a.count_ones(), b.count_ones());
        assert_eq!(a.count_zeros(), len - a.count_ones());
        kani::cover!(len % 64 != 0 && len > 64, "partial last word");
    }

    /// Blanket slice implementation of `copy` / `reset` on `[W]`.
    /// (`u8` elements: Kani 0.68 under-copies `copy_nonoverlapping` with a
    /// symbolic element count for wider element types -- a modelling defect
    /// found because its counter-example did not replay; see DESIGN.md.)
    #[kani::proof]
    #[kani::unwind(6)]
    pub fn slice_copy_reset() {
        let src: [u8; 4] = kani::any();
        let mut dst: [u8; 4] = kani::any();
        let d0 = dst;
        let from: usize = kani::any();
        let to: usize = kani::any();
        let len: usize = kani::any();
        kani::assume(from <= 4 && to <= 4);
        BitFieldSliceMut::<u8>::copy(&src, from, &mut dst, to, len);
        let eff = len.min(4 - from).min(4 - to);
        let q: usize = kani::any();
        kani::assume(q < 4);
        if q >= to && q < to + eff {
            assert_eq!(dst[q], src[from + q - to]);
        } else {
            assert_eq!(dst[q], d0[q]);
        }
        BitFieldSliceMut::<u8>::reset(&mut dst);
        assert_eq!(dst[q], 0);
        kani::cover!(eff == 2);
    }
}

#[cfg(feature = "c10_t")]
pub mod t {
    pub mod u16_ {
        c10_family!(u16, 4, 4, ref_get_u16, 8);
        c10_copy_sym!(ref_get_u16);
        c10_atomic!(std::sync::atomic::AtomicU16, ref_get_u16);
    }
    pub mod u32_ {
        c10_family!(u32, 3, 2, ref_get_u32, 6);
        c10_copy_sym!(ref_get_u32);
        c10_atomic!(std::sync::atomic::AtomicU32, ref_get_u32);
    }
    pub mod u64_ {
        c10_family!(u64, 3, 3, ref_get_u64, 4);
        c10_atomic!(std::sync::atomic::AtomicU64, ref_get_u64);
    }
    pub mod u128_ {
        c10_family!(u128, 3, 3, ref_get_u128, 4);
    }
    pub mod usize_sym {
        //! symbolic-width `copy` over two 64-bit words per vector.
        c10_family!(usize, 3, 2, ref_get_usize, 4);
        c10_copy_sym!(ref_get_usize);
    }
}
