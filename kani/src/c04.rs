//! C04 — Elias–Fano index_of / succ / pred agree with their order-theoretic
//! definitions, for every query in the whole `usize` range.
//!
//! Same grid, log2 table and witness selector as C03. Oracles: four-line
//! loops over the symbolic sequence; with duplicates any index holding the
//! returned value is accepted.
use crate::ef_grid::log2_tab;
use crate::efcommon::*;
use crate::util::*;
use sux::dict::{EliasFano, EliasFanoBuilder};
use sux::prelude::*;

macro_rules! ef_c04 {
    ($name:ident, $n:expr, $u:expr, $l:expr) => {
        pub mod $name {
            use super::super::*;
            const N: usize = $n;
            const U: usize = $u;

            fn build(x: &[usize; N]) -> Ef {
                let mut b = EliasFanoBuilder::new(N, U);
                let mut k = 0;
                while k < N {
                    b.push(x[k]);
                    k += 1;
                }
                wit(b.build())
            }

            /// `index_of` / `contains`.
            #[kani::proof]
            #[kani::unwind(8)]
            #[kani::stub(f64::log2, log2_tab)]
            pub fn index_of() {
                let x: [usize; N] = monotone::<N>(U);
                let ef = build(&x);
                let q: usize = kani::any();
                let mut occurs = false;
                let mut k = 0;
                while k < N {
                    if x[k] == q {
                        occurs = true;
                    }
                    k += 1;
                }
                match ef.index_of(q) {
                    Some(j) => {
                        assert!(j < N && x[j] == q);
                    }
                    None => assert!(!occurs),
                }
                assert_eq!(ef.contains(q), occurs);
                kani::cover!(N == 0 || occurs, "member query");
                kani::cover!(U == usize::MAX || q > U, "query above the declared bound");
                kani::cover!(N == 0 || U == 0 || (!occurs && q < x[N - 1]), "non-member below the last element");
                std::mem::forget(ef);
            }

            /// `succ` / `succ_strict`.
            #[kani::proof]
            #[kani::unwind(8)]
            #[kani::stub(f64::log2, log2_tab)]
            pub fn succ() {
                let x: [usize; N] = monotone::<N>(U);
                let ef = build(&x);
                let q: usize = kani::any();
                let strict: bool = kani::any();
                let mut exp: Option<usize> = None;
                let mut k = N;
                while k > 0 {
                    k -= 1;
                    if (strict && x[k] > q) || (!strict && x[k] >= q) {
                        exp = Some(x[k]);
                    }
                }
                let r = if strict { ef.succ_strict(q) } else { ef.succ(q) };
                match (r, exp) {
                    (None, None) => {}
                    (Some((j, v)), Some(e)) => {
                        assert!(v == e && j < N && x[j] == v);
                        // the returned index is the first one holding a qualifying value
                        assert!(j == 0 || (strict && x[j - 1] <= q) || (!strict && x[j - 1] < q));
                    }
                    _ => assert!(false, "succ: wrong presence"),
                }
                kani::cover!(N == 0 || r.is_some(), "successor exists");
                kani::cover!(r.is_none(), "no successor");
                kani::cover!(U == usize::MAX || q > U, "query above the declared bound");
                std::mem::forget(ef);
            }

            /// `pred` / `pred_strict`.
            #[kani::proof]
            #[kani::unwind(8)]
            #[kani::stub(f64::log2, log2_tab)]
            pub fn pred() {
                let x: [usize; N] = monotone::<N>(U);
                let ef = build(&x);
                let q: usize = kani::any();
                let strict: bool = kani::any();
                let mut exp: Option<usize> = None;
                let mut k = 0;
                while k < N {
                    if (strict && x[k] < q) || (!strict && x[k] <= q) {
                        exp = Some(x[k]);
                    }
                    k += 1;
                }
                let r = if strict { ef.pred_strict(q) } else { ef.pred(q) };
                match (r, exp) {
                    (None, None) => {}
                    (Some((j, v)), Some(e)) => {
                        assert!(v == e && j < N && x[j] == v);
                        // the returned index is the last one holding a qualifying value
                        assert!(j + 1 == N || (strict && x[j + 1] >= q) || (!strict && x[j + 1] > q));
                    }
                    _ => assert!(false, "pred: wrong presence"),
                }
                kani::cover!(N == 0 || r.is_some(), "predecessor exists");
                kani::cover!(r.is_none(), "no predecessor");
                kani::cover!(U == usize::MAX || q > U, "query above the declared bound");
                std::mem::forget(ef);
            }
        }
    };
}

pub mod q {
    use crate::ef_grid_q;
    ef_grid_q!(ef_c04);
}

#[cfg(feature = "c04_t")]
pub mod t {
    use crate::ef_grid_t;
    ef_grid_t!(ef_c04);
}
