//! C04 — Elias–Fano index_of / succ / pred agree with their order-theoretic
//! definitions, for every query in the whole `usize` range.
//!
//! Same grid, log2 table and witness selector as C03. Oracles: four-line
//! loops over the symbolic sequence; with duplicates any index holding the
//! returned value is accepted.
use crate::ef_grid::log2_tab;
use crate::efcommon::*;
use crate::util::*;
use sux::dict::{EliasFano, EliasFanoBuilder};
use sux::prelude::*;

macro_rules! ef_c04 {
    ($name:ident, $n:expr, $u:expr, $l:expr) => {
        pub mod $name {
            use super::super::*;
            const N: usize = $n;
            const U: usize = $u;

            fn build(x: &[usize; N]) -> Ef {
                let mut b = EliasFanoBuilder::new(N, U);
                let mut k = 0;
                while k < N {
                    b.push(x[k]);
                    k += 1;
                }
                wit(b.build())
            }

            /// `index_of` / `contains`.
            #[kani::proof]
            #[kani::unwind(8)]
            #[kani::stub(f64::log2, log2_tab)]
            pub fn index_of() {
                let x: [usize; N] = monotone::<N>(U);
                let ef = build(&x);
                let q: usize = kani::any();
                let mut occurs = false;
                let mut k = 0;
                while k < N {
                    if x[k] == q {
                        occurs = true;
                    }
                    k += 1;
                }
                match ef.index_of(q) {
                    Some(j) => {
                        assert!(j < N && x[j] == q);
                    }
                    None => assert!(!occurs),
                }
                assert_eq!(ef.contains(q), occurs);
                kani::cover!(N == 0 || occurs, "member query");
                kani::cover!(U == usize::MAX || q > U, "query above the declared bound");
                kani::cover!(N == 0 || U == 0 || (!occurs && q < x[N - 1]), "non-member below the last element");
                std::mem::forget(ef);
            }

            /// `succ` / `succ_strict`.
            #[kani::proof]
            #[kani::unwind(8)]
            #[kani::stub(f64::log2, log2_tab)]
            pub fn succ() {
                let x: [usize; N] = monotone::<N>(U);
                let ef = build(&x);
                let q: usize = kani::any();
                let strict: bool = kani::any();
                let mut exp: Option<usize> = None;
                let mut k = N;
                while k > 0 {
                    k -= 1;
                    if (strict && x[k] > q) || (!strict && x[k] >= q) {
                        exp = Some(x[k]);
                    }
                }
                let r = if strict { ef.succ_strict(q) } else { ef.succ(q) };
                match (r, exp) {
                    (None, None) => {}
                    (Some((j, v)), Some(e)) => {
                        assert!(v == e && j < N && x[j] == v);
                        // the returned index is the first one holding a qualifying value
                        assert!(j == 0 || (strict && x[j - 1] <= q) || (!strict && x[j - 1] < q));
                    }
                    _ => assert!(false, "succ: wrong presence"),
                }
                kani::cover!(N == 0 || r.is_some(), "successor exists");
                kani::cover!(r.is_none(), "no successor");
                kani::cover!(U == usize::MAX || q > U, "query above the declared bound");
                std::mem::forget(ef);
            }

            /// `pred` / `pred_strict`.
            #[kani::proof]
            #[kani::unwind(8)]
            #[kani::stub(f64::log2, log2_tab)]
            pub fn pred() {
                let x: [usize; N] = monotone::<N>(U);
                let ef = build(&x);
                let q: usize = kani::any();
                let strict: bool = kani::any();
                let mut exp: Option<usize> = None;
                let mut k = 0;
                while k < N {
                    if (strict && x[k] < q) || (!strict && x[k] <= q) {
                        exp = Some(x[k]);
                    }
                    k += 1;
                }
                let r = if strict { ef.pred_strict(q) } else { ef.pred(q) };
                match (r, exp) {
                    (None, None) => {}
                    (Some((j, v)), Some(e)) => {
                        assert!(v == e && j < N && x[j] == v);
                        // the returned index is the last one holding a qualifying value
                        assert!(j + 1 == N || (strict && x[j + 1] >= q) || (!strict && x[j + 1] > q));
                    }
                    _ => assert!(false, "pred: wrong presence"),
                }
                kani::cover!(N == 0 || r.is_some(), "predecessor exists");
                kani::cover!(r.is_none(), "no predecessor");
                kani::cover!(U == usize::MAX || q > U, "query above the declared bound");
                std::mem::forget(ef);
            }
        }
    };
}

pub mod q {
    use crate::ef_grid_q;
    ef_grid_q!(ef_c04);
}

#[cfg(feature = "c04_t")]
pub mod t {
    /// From an arbitrary valid representation state with a three-word
    /// upper-bits vector (efstate.rs: N = 44, U = 86, every clustered
    /// sequence inside). Oracles by witness: the element of a symbolic rank is
    /// the position of the one of that rank minus the rank.
    pub mod state {
        use crate::ef_grid::log2_tab;
        use crate::efstate::*;
        use sux::prelude::*;

        // succ / pred, strict and not: one harness for "the answer is an element that qualifies, and None
        // exactly when no element does" and one for "it is the first / last such element".
        macro_rules! succ_pred {
            ($value:ident, $extremal:ident, $succ:expr, $strict:expr) => {
                #[kani::proof]
                #[kani::unwind(50)]
                #[kani::stub(f64::log2, log2_tab)]
                pub fn $value() {
                    let (ef, high) = any_state();
                    let q: usize = kani::any();
                    let ok = |v: usize| if $succ { if $strict { v > q } else { v >= q } } else { if $strict { v < q } else { v <= q } };
                    let edge = x_at(&high, if $succ { N - 1 } else { 0 });
                    let r = match ($succ, $strict) {
                        (true, false) => ef.succ(q),
                        (true, true) => ef.succ_strict(q),
                        (false, false) => ef.pred(q),
                        (false, true) => ef.pred_strict(q),
                    };
                    match r {
                        None => assert!(!ok(edge)),
                        Some((j, v)) => {
                            assert!(ok(edge) && j < N);
                            assert_eq!(v, x_at(&high, j));
                            assert!(ok(v));
                        }
                    }
                    kani::cover!(r.is_some());
                    kani::cover!(r.is_none());
                    std::mem::forget(ef);
                }

                #[kani::proof]
                #[kani::unwind(50)]
                #[kani::stub(f64::log2, log2_tab)]
                pub fn $extremal() {
                    let (ef, high) = any_state();
                    let q: usize = kani::any();
                    let ok = |v: usize| if $succ { if $strict { v > q } else { v >= q } } else { if $strict { v < q } else { v <= q } };
                    let r = match ($succ, $strict) {
                        (true, false) => ef.succ(q),
                        (true, true) => ef.succ_strict(q),
                        (false, false) => ef.pred(q),
                        (false, true) => ef.pred_strict(q),
                    };
                    if let Some((j, v)) = r {
                        kani::assume(j < N);
                        if $succ {
                            if j > 0 {
                                let prev = x_at(&high, j - 1);
                                assert!(!ok(prev));
                                kani::cover!(v >= prev + 64, "successor across an all-zero word of upper bits");
                            }
                        } else {
                            if j + 1 < N {
                                let next = x_at(&high, j + 1);
                                assert!(!ok(next));
                                kani::cover!(next >= v + 70 && q >= v + 69, "predecessor found two words before the bucket of the query");
                            }
                        }
                    }
                    std::mem::forget(ef);
                }
            };
        }
        succ_pred!(succ_value, succ_first, true, false);
        succ_pred!(pred_value, pred_last, false, false);
        // the strict variants from an arbitrary state do not fit (with l = 0 the backward / forward scan over
        // equal elements is a data-dependent loop of up to N heavy iterations: out of memory / 25 min);
        // they are decided on the (n,u) grid only

        #[kani::proof]
        #[kani::unwind(50)]
        #[kani::stub(f64::log2, log2_tab)]
        pub fn index_of_from_any_state() {
            let (ef, high) = any_state();
            let q: usize = kani::any();
            let r = ef.index_of(q);
            match r {
                Some(j) => {
                    assert!(j < N);
                    assert_eq!(x_at(&high, j), q);
                }
                None => {
                    // no rank holds q: universally quantified over the symbolic rank
                    let j: usize = kani::any();
                    kani::assume(j < N);
                    assert!(x_at(&high, j) != q);
                }
            }
            kani::cover!(r.is_some());
            kani::cover!(r.is_none() && q < U);
            std::mem::forget(ef);
        }
    }
    use crate::ef_grid_t;
    ef_grid_t!(ef_c04);
}
