//! See Cargo.toml. The harness modules are the files of ../kani/src.
#![allow(unused)]
#[path = "../../kani/src/util.rs"]
pub mod util;
#[cfg(feature = "c05")]
#[path = "../../kani/src/c05.rs"]
pub mod c05;
#[cfg(feature = "c06")]
#[path = "../../kani/src/c06.rs"]
pub mod c06;
#[cfg(feature = "c10")]
#[path = "../../kani/src/c10.rs"]
pub mod c10;

#[cfg(test)]
mod playback {
    include!(env!("VERIF_PLAYBACK_FILE"));
}
