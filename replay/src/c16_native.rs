//! Native statement of C16 for one shard/edge logic and one signature; used to replay SMT models
//! produced by the E2 engine against the real `ShardEdge` methods.
use sux::func::shard_edge::ShardEdge;
use sux::utils::Sig;

pub fn check_edge<S: Sig + Copy + Send + Sync + epserde::prelude::ZeroCopy, E: ShardEdge<S, 3>>(se: &E, sig: S) {
    let e = se.edge(sig);
    let le = se.local_edge(se.local_sig(sig));
    let nv = se.num_vertices();
    let sh = se.shard(sig);
    assert!(le[0] != le[1] && le[1] != le[2] && le[0] != le[2], "local vertices not distinct: {:?}", le);
    for k in 0..3 {
        assert!(le[k] < nv, "local vertex {} = {} >= num_vertices {}", k, le[k], nv);
        assert_eq!(e[k], le[k] + sh * nv, "edge[{}] is not the shifted local edge (shard {}, num_vertices {})", k, sh, nv);
        assert!(e[k] < nv * se.num_shards(), "vertex outside the backing array");
    }
    assert!(se.sort_key(sig) < se.num_sort_keys().max(1), "sort key out of range");
    assert!(sh < se.num_shards(), "shard out of range");
    let shb = se.shard_high_bits();
    let mask = if shb == 0 { 0 } else { (1u64 << shb) - 1 };
    assert_eq!(sh as u64, if shb == 0 { 0 } else { sig.high_bits(shb, mask) }, "shard differs from the store's high bits");
}
