//! Identity attribute macros standing in for Kani's harness attributes when
//! the harnesses are compiled natively for replay.
use proc_macro::TokenStream;

macro_rules! identity {
    ($($name:ident),*) => {$(
        #[proc_macro_attribute]
        pub fn $name(_attr: TokenStream, item: TokenStream) -> TokenStream {
            item
        }
    )*};
}
identity!(proof, unwind, should_panic, stub, solver, stub_verified, proof_for_contract);
