//! Native stand-in for the `kani` crate, used only to replay solver
//! counter-examples against the real code with the ordinary toolchain (dev
//! profile with the standard library's unsafe-precondition checks, release
//! profile, Miri). `any()` pops the next concrete value recorded by Kani's
//! concrete playback, in the same order Kani's own playback library uses.
pub use kani_shim_macros::{proof, proof_for_contract, should_panic, solver, stub, stub_verified, unwind};
use std::cell::RefCell;

thread_local! {
    static VALS: RefCell<std::collections::VecDeque<Vec<u8>>> = RefCell::new(Default::default());
}

pub fn concrete_playback_run<F: Fn()>(vals: Vec<Vec<u8>>, f: F) {
    VALS.with(|v| *v.borrow_mut() = vals.into());
    f();
}

fn next_bytes<const N: usize>() -> [u8; N] {
    VALS.with(|v| {
        let b = v.borrow_mut().pop_front().expect("playback: ran out of concrete values");
        assert_eq!(b.len(), N, "playback: size mismatch");
        let mut a = [0u8; N];
        a.copy_from_slice(&b);
        a
    })
}

pub trait Arbitrary: Sized {
    fn any() -> Self;
}

macro_rules! int {
    ($($t:ty),*) => {$(
        impl Arbitrary for $t {
            fn any() -> Self {
                <$t>::from_le_bytes(next_bytes::<{ core::mem::size_of::<$t>() }>())
            }
        }
    )*};
}
int!(u8, u16, u32, u64, u128, usize, i8, i16, i32, i64, i128, isize);

impl Arbitrary for bool {
    fn any() -> Self {
        let b = next_bytes::<1>()[0];
        assert!(b < 2, "playback: invalid bool");
        b == 1
    }
}

impl<T: Arbitrary, const N: usize> Arbitrary for [T; N] {
    fn any() -> Self {
        core::array::from_fn(|_| T::any())
    }
}

impl<A: Arbitrary, B: Arbitrary> Arbitrary for (A, B) {
    fn any() -> Self {
        (A::any(), B::any())
    }
}

pub fn any<T: Arbitrary>() -> T {
    T::any()
}

/// Under replay an assumption must hold for the recorded values.
pub fn assume(cond: bool) {
    assert!(cond, "playback: kani::assume does not hold for the recorded values");
}

#[macro_export]
macro_rules! cover {
    () => {};
    ($cond:expr $(,)?) => {{
        let _ = &$cond;
    }};
    ($cond:expr, $msg:literal) => {{
        let _ = &$cond;
    }};
}
