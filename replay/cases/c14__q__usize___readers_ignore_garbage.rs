// verif-case: property=C14 flavour=da feature=c14 harness=c14::q::usize_::readers_ignore_garbage safety_only=0
// Solver counter-example(s) produced by Kani's concrete playback; replay with
//   ./check C14 --replay /verif/replay/cases/c14__q__usize___readers_ignore_garbage.rs

// failed check (assertion): assertion failed: x == y
#[test]
fn kani_concrete_playback_readers_ignore_garbage_4188181770329603445() {
    let concrete_vals: Vec<Vec<u8>> = vec![
        // 549764235513ul
        vec![249, 128, 128, 0, 128, 0, 0, 0],
        // 8136008878707486864ul
        vec![144, 176, 200, 0, 248, 232, 232, 112],
        // 6983087374103761026ul
        vec![130, 80, 248, 0, 248, 232, 232, 96],
        // 8356089ul
        vec![249, 128, 127, 0, 0, 0, 0, 0],
        // 8136008878707441872ul
        vec![208, 0, 200, 0, 248, 232, 232, 112],
        // 8136008878710608016ul
        vec![144, 80, 248, 0, 248, 232, 232, 112],
        // 8ul
        vec![8, 0, 0, 0, 0, 0, 0, 0],
        // 2ul
        vec![2, 0, 0, 0, 0, 0, 0, 0],
        // 1ul
        vec![1, 0, 0, 0, 0, 0, 0, 0],
    ];
    kani::concrete_playback_run(concrete_vals, crate::c14::q::usize_::readers_ignore_garbage);
}
