// verif-case: property=C12 flavour=da feature=c12 harness=c12::qs::bfv_u8::readers safety_only=1
// Solver counter-example(s) produced by Kani's concrete playback; replay with
//   ./check C12 --replay /verif/replay/cases/c12__qs__bfv_u8__readers.rs

// failed check (assume): Rust intrinsic assumption failed
#[test]
fn kani_concrete_playback_readers_10299161931145366684() {
    let concrete_vals: Vec<Vec<u8>> = vec![
        // 0
        vec![0],
        // 0
        vec![0],
        // 0
        vec![0],
        // 0
        vec![0],
        // 1ul
        vec![1, 0, 0, 0, 0, 0, 0, 0],
        // 32ul
        vec![32, 0, 0, 0, 0, 0, 0, 0],
        // 3
        vec![3],
        // 32ul
        vec![32, 0, 0, 0, 0, 0, 0, 0],
    ];
    kani::concrete_playback_run(concrete_vals, crate::c12::qs::bfv_u8::readers);
}
