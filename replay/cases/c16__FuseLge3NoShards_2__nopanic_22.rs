// verif-case: property=C16 flavour=da feature=c16 harness=e2::FuseLge3NoShards_2::nopanic_22 safety_only=0
// SMT model of a violated obligation (no panic: attempt to compute `{} + {}`, which would overflow in num_vertices); replayed against the real ShardEdge methods.
#[test]
fn kani_concrete_playback_c16_fuselge3noshards_2_nopanic_22() {
    let se = sux::func::shard_edge::FuseLge3NoShards::verif_from_parts(18, 4294967294);
    let sig = [0x0_u64, 0x0_u64];
    crate::c16_native::check_edge(&se, sig);
}
