// verif-case: property=C12 flavour=da feature=c12 harness=c12::qs::bfv_with_capacity safety_only=1
// Solver counter-example(s) produced by Kani's concrete playback; replay with
//   ./check C12 --replay /verif/replay/cases/c12__qs__bfv_with_capacity.rs

// failed check (assume): Rust intrinsic assumption failed
#[test]
fn kani_concrete_playback_bfv_with_capacity_11119218633563760902() {
    let concrete_vals: Vec<Vec<u8>> = vec![
        // 0ul
        vec![0, 0, 0, 0, 0, 0, 0, 0],
        // 255
        vec![255],
        // 0ul
        vec![0, 0, 0, 0, 0, 0, 0, 0],
    ];
    kani::concrete_playback_run(concrete_vals, crate::c12::qs::bfv_with_capacity);
}
