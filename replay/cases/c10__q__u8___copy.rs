// verif-case: property=C10 flavour=da feature=c10 harness=c10::q::u8_::copy safety_only=0
// Solver counter-example(s) produced by Kani's concrete playback; replay with
//   ./check C10 --replay /verif/replay/cases/c10__q__u8___copy.rs

// failed check (assertion): assertion failed: d.get(q) == ref_get_u8 (& src, w, from + q - to)
#[test]
fn kani_concrete_playback_copy_13454302367160671494() {
    let concrete_vals: Vec<Vec<u8>> = vec![
        // 136
        vec![136],
        // 136
        vec![136],
        // 35
        vec![35],
        // 136
        vec![136],
        // 63
        vec![63],
        // 63
        vec![63],
        // 125
        vec![125],
        // 61
        vec![61],
        // 1ul
        vec![1, 0, 0, 0, 0, 0, 0, 0],
        // 17ul
        vec![17, 0, 0, 0, 0, 0, 0, 0],
        // 5ul
        vec![5, 0, 0, 0, 0, 0, 0, 0],
        // 32ul
        vec![32, 0, 0, 0, 0, 0, 0, 0],
        // 15ul
        vec![15, 0, 0, 0, 0, 0, 0, 0],
    ];
    kani::concrete_playback_run(concrete_vals, crate::c10::q::u8_::copy);
}
