// verif-case: property=C10 flavour=da feature=c10 harness=c10::q::u8_::copy safety_only=0
// Solver counter-example(s) produced by Kani's concrete playback; replay with
//   ./check C10 --replay /verif/replay/cases/c10__q__u8___copy.rs

// failed check (assertion): attempt to shift left with overflow
#[test]
fn kani_concrete_playback_copy_4731192945706273058() {
    let concrete_vals: Vec<Vec<u8>> = vec![
        // 176
        vec![176],
        // 176
        vec![176],
        // 176
        vec![176],
        // 241
        vec![241],
        // 250
        vec![250],
        // 240
        vec![240],
        // 208
        vec![208],
        // 208
        vec![208],
        // 8ul
        vec![8, 0, 0, 0, 0, 0, 0, 0],
        // 0ul
        vec![0, 0, 0, 0, 0, 0, 0, 0],
        // 3ul
        vec![3, 0, 0, 0, 0, 0, 0, 0],
        // 2ul
        vec![2, 0, 0, 0, 0, 0, 0, 0],
    ];
    kani::concrete_playback_run(concrete_vals, crate::c10::q::u8_::copy);
}
