// verif-case: property=C10 flavour=da feature=c10 harness=c10::q::u8_::copy safety_only=0
// Solver counter-example(s) produced by Kani's concrete playback; replay with
//   ./check C10 --replay /verif/replay/cases/c10__q__u8___copy.rs

/// Test generated for harness `c10::q::u8_::copy` 
///
/// Check for `assertion`: "assertion failed: d.get(q) == ref_get_u8 (& src, w, from + q - to)"

#[test]
fn kani_concrete_playback_copy_11658636510827472728() {
    let concrete_vals: Vec<Vec<u8>> = vec![
        // 0
        vec![0],
        // 128
        vec![128],
        // 19
        vec![19],
        // 17
        vec![17],
        // 254
        vec![254],
        // 254
        vec![254],
        // 178
        vec![178],
        // 163
        vec![163],
        // 1ul
        vec![1, 0, 0, 0, 0, 0, 0, 0],
        // 12ul
        vec![12, 0, 0, 0, 0, 0, 0, 0],
        // 23ul
        vec![23, 0, 0, 0, 0, 0, 0, 0],
        // 6ul
        vec![6, 0, 0, 0, 0, 0, 0, 0],
        // 25ul
        vec![25, 0, 0, 0, 0, 0, 0, 0],
    ];
    kani::concrete_playback_run(concrete_vals, crate::c10::q::u8_::copy);
}
