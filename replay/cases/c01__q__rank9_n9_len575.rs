// verif-case: property=C01 flavour=da feature=c01 harness=c01::q::rank9_n9_len575 safety_only=0
// Solver counter-example(s) produced by Kani's concrete playback; replay with
//   ./check C01 --replay /verif/replay/cases/c01__q__rank9_n9_len575.rs

// failed check (assertion): assertion failed: r.rank(p) == exp
#[test]
fn kani_concrete_playback_rank9_n9_len575_18138070336920743114() {
    let concrete_vals: Vec<Vec<u8>> = vec![
        // 0ul
        vec![0, 0, 0, 0, 0, 0, 0, 0],
        // 0ul
        vec![0, 0, 0, 0, 0, 0, 0, 0],
        // 0ul
        vec![0, 0, 0, 0, 0, 0, 0, 0],
        // 3548818914181906432ul
        vec![0, 0, 0, 0, 0, 240, 63, 49],
        // 18446744071595294711ul
        vec![247, 255, 250, 129, 255, 255, 255, 255],
        // 18446744073709551615ul
        vec![255, 255, 255, 255, 255, 255, 255, 255],
        // 18446744004990074879ul
        vec![255, 255, 255, 255, 239, 255, 255, 255],
        // 18437736874421256191ul
        vec![255, 255, 255, 253, 255, 255, 223, 255],
        // 18446603336221196287ul
        vec![255, 255, 255, 255, 255, 127, 255, 255],
        // 827ul
        vec![59, 3, 0, 0, 0, 0, 0, 0],
    ];
    kani::concrete_playback_run(concrete_vals, crate::c01::q::rank9_n9_len575);
}

// failed check (assertion): assertion failed: r.num_ones() == total
#[test]
fn kani_concrete_playback_rank9_n9_len575_11296786555109733334() {
    let concrete_vals: Vec<Vec<u8>> = vec![
        // 18446744073709551615ul
        vec![255, 255, 255, 255, 255, 255, 255, 255],
        // 18446744073709551615ul
        vec![255, 255, 255, 255, 255, 255, 255, 255],
        // 18446744073709551615ul
        vec![255, 255, 255, 255, 255, 255, 255, 255],
        // 18446744073709551615ul
        vec![255, 255, 255, 255, 255, 255, 255, 255],
        // 18446744073709551615ul
        vec![255, 255, 255, 255, 255, 255, 255, 255],
        // 18446744073709551615ul
        vec![255, 255, 255, 255, 255, 255, 255, 255],
        // 18446744073709551615ul
        vec![255, 255, 255, 255, 255, 255, 255, 255],
        // 18446744073709551615ul
        vec![255, 255, 255, 255, 255, 255, 255, 255],
        // 18446744073709551615ul
        vec![255, 255, 255, 255, 255, 255, 255, 255],
        // 543ul
        vec![31, 2, 0, 0, 0, 0, 0, 0],
    ];
    kani::concrete_playback_run(concrete_vals, crate::c01::q::rank9_n9_len575);
}
