// verif-case: property=C06 flavour=da feature=c06 harness=c06::q::push_step safety_only=0
// Solver counter-example(s) produced by Kani's concrete playback; replay with
//   ./check C06 --replay /verif/replay/cases/c06__q__push_step.rs

// failed check (assertion): assertion failed: v.get(len) == b
#[test]
fn kani_concrete_playback_push_step_3295899008198637548() {
    let concrete_vals: Vec<Vec<u8>> = vec![
        // 18446744073709551606ul
        vec![246, 255, 255, 255, 255, 255, 255, 255],
        // 18446744073709551606ul
        vec![246, 255, 255, 255, 255, 255, 255, 255],
        // 18446744073709551615ul
        vec![255, 255, 255, 255, 255, 255, 255, 255],
        // 191ul
        vec![191, 0, 0, 0, 0, 0, 0, 0],
        // 0
        vec![0],
    ];
    kani::concrete_playback_run(concrete_vals, crate::c06::q::push_step);
}
