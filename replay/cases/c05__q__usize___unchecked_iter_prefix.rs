// verif-case: property=C05 flavour=da feature=c05 harness=c05::q::usize_::unchecked_iter_prefix safety_only=0
// Solver counter-example(s) produced by Kani's concrete playback; replay with
//   ./check C05 --replay /verif/replay/cases/c05__q__usize___unchecked_iter_prefix.rs

// failed check (assume): Rust intrinsic assumption failed
#[test]
fn kani_concrete_playback_unchecked_iter_prefix_8574184279567752015() {
    let concrete_vals: Vec<Vec<u8>> = vec![
        // 1ul
        vec![1, 0, 0, 0, 0, 0, 0, 0],
        // 1ul
        vec![1, 0, 0, 0, 0, 0, 0, 0],
        // 1ul
        vec![1, 0, 0, 0, 0, 0, 0, 0],
        // 1ul
        vec![1, 0, 0, 0, 0, 0, 0, 0],
        // 192ul
        vec![192, 0, 0, 0, 0, 0, 0, 0],
        // 192ul
        vec![192, 0, 0, 0, 0, 0, 0, 0],
    ];
    kani::concrete_playback_run(concrete_vals, crate::c05::q::usize_::unchecked_iter_prefix);
}
