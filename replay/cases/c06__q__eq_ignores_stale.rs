// verif-case: property=C06 flavour=da feature=c06 harness=c06::q::eq_ignores_stale safety_only=0
// Solver counter-example(s) produced by Kani's concrete playback; replay with
//   ./check C06 --replay /verif/replay/cases/c06__q__eq_ignores_stale.rs

// failed check (assertion): assertion failed: x == y
#[test]
fn kani_concrete_playback_eq_ignores_stale_4708130893930924585() {
    let concrete_vals: Vec<Vec<u8>> = vec![
        // 17245690343773339904ul
        vec![0, 129, 254, 254, 254, 255, 84, 239],
        // 18446744073709551615ul
        vec![255, 255, 255, 255, 255, 255, 255, 255],
        // 18446744073709551615ul
        vec![255, 255, 255, 255, 255, 255, 255, 255],
        // 16ul
        vec![16, 0, 0, 0, 0, 0, 0, 0],
        // 17247379193633538304ul
        vec![0, 129, 253, 254, 254, 255, 90, 239],
        // 18446744073709551615ul
        vec![255, 255, 255, 255, 255, 255, 255, 255],
        // 18446744073709551615ul
        vec![255, 255, 255, 255, 255, 255, 255, 255],
    ];
    kani::concrete_playback_run(concrete_vals, crate::c06::q::eq_ignores_stale);
}
