// verif-case: property=C04 flavour=da feature=c04 harness=c04::q::n1_u0::pred safety_only=0
// Solver counter-example(s) produced by Kani's concrete playback; replay with
//   ./check C04 --replay /verif/replay/cases/c04__q__n1_u0__pred.rs

// failed check (?): 
#[test]
fn kani_concrete_playback_pred_3245955563770792969() {
    let concrete_vals: Vec<Vec<u8>> = vec![
        // 0ul
        vec![0, 0, 0, 0, 0, 0, 0, 0],
        // 0ul
        vec![0, 0, 0, 0, 0, 0, 0, 0],
        // 0
        vec![0],
        // 0ul
        vec![0, 0, 0, 0, 0, 0, 0, 0],
        // 1ul
        vec![1, 0, 0, 0, 0, 0, 0, 0],
    ];
    kani::concrete_playback_run(concrete_vals, crate::c04::q::n1_u0::pred);
}

// failed check (?): 
#[test]
fn kani_concrete_playback_pred_8633045794650146255() {
    let concrete_vals: Vec<Vec<u8>> = vec![
        // 0ul
        vec![0, 0, 0, 0, 0, 0, 0, 0],
        // 0ul
        vec![0, 0, 0, 0, 0, 0, 0, 0],
        // 1
        vec![1],
        // 0ul
        vec![0, 0, 0, 0, 0, 0, 0, 0],
    ];
    kani::concrete_playback_run(concrete_vals, crate::c04::q::n1_u0::pred);
}

// failed check (?): 
#[test]
fn kani_concrete_playback_pred_2257128217914933733() {
    let concrete_vals: Vec<Vec<u8>> = vec![
        // 0ul
        vec![0, 0, 0, 0, 0, 0, 0, 0],
        // 1ul
        vec![1, 0, 0, 0, 0, 0, 0, 0],
        // 1
        vec![1],
        // 0ul
        vec![0, 0, 0, 0, 0, 0, 0, 0],
    ];
    kani::concrete_playback_run(concrete_vals, crate::c04::q::n1_u0::pred);
}
