// verif-case: property=C06 flavour=da feature=c06 harness=c06::q::extend_collect_macro safety_only=0
// Solver counter-example(s) produced by Kani's concrete playback; replay with
//   ./check C06 --replay /verif/replay/cases/c06__q__extend_collect_macro.rs

// failed check (assertion): assertion failed: v.get(len + k) == x[k]
#[test]
fn kani_concrete_playback_extend_collect_macro_9337483386969428479() {
    let concrete_vals: Vec<Vec<u8>> = vec![
        // 18446744073709551615ul
        vec![255, 255, 255, 255, 255, 255, 255, 255],
        // 18446744073709551615ul
        vec![255, 255, 255, 255, 255, 255, 255, 255],
        // 18446744073709551615ul
        vec![255, 255, 255, 255, 255, 255, 255, 255],
        // 1
        vec![1],
        // 1
        vec![1],
        // 0
        vec![0],
        // 2ul
        vec![2, 0, 0, 0, 0, 0, 0, 0],
    ];
    kani::concrete_playback_run(concrete_vals, crate::c06::q::extend_collect_macro);
}
