// verif-case: property=C03 flavour=da feature=c03_t harness=c03::t::n0_umax::build_get_iter safety_only=0
// Solver counter-example(s) produced by Kani's concrete playback; replay with
//   ./check C03 --replay /verif/replay/cases/c03__t__n0_umax__build_get_iter.rs

// failed check (assertion): attempt to add with overflow
#[test]
fn kani_concrete_playback_build_get_iter_15485482020300711853() {
    let concrete_vals: Vec<Vec<u8>> = vec![
    ];
    kani::concrete_playback_run(concrete_vals, crate::c03::t::n0_umax::build_get_iter);
}
