// verif-case: property=C05 flavour=da feature=c05 harness=c05::q::u8_::from_slice2 safety_only=0
// Solver counter-example(s) produced by Kani's concrete playback; replay with
//   ./check C05 --replay /verif/replay/cases/c05__q__u8___from_slice2.rs

// failed check (assertion): assertion failed: v.get(i) == ref_get_u8 (& words, w, i)
#[test]
fn kani_concrete_playback_from_slice2_6799387867456393625() {
    let concrete_vals: Vec<Vec<u8>> = vec![
        // 8
        vec![8],
        // 2
        vec![2],
        // 0
        vec![0],
        // 1
        vec![1],
        // 5ul
        vec![5, 0, 0, 0, 0, 0, 0, 0],
        // 1ul
        vec![1, 0, 0, 0, 0, 0, 0, 0],
    ];
    kani::concrete_playback_run(concrete_vals, crate::c05::q::u8_::from_slice2);
}

// failed check (assertion): assertion failed: BitFieldSliceCore :: < W > :: bit_width(& v) == if m == 0 { 1 } else { B - m.leading_zeros() as usize }
#[test]
fn kani_concrete_playback_from_slice2_10019210591246602668() {
    let concrete_vals: Vec<Vec<u8>> = vec![
        // 129
        vec![129],
        // 224
        vec![224],
        // 224
        vec![224],
        // 1
        vec![1],
        // 0ul
        vec![0, 0, 0, 0, 0, 0, 0, 0],
        // 0ul
        vec![0, 0, 0, 0, 0, 0, 0, 0],
    ];
    kani::concrete_playback_run(concrete_vals, crate::c05::q::u8_::from_slice2);
}
