// verif-case: property=C03 flavour=da feature=c03 harness=c03::q::n0_u5::builders_agree safety_only=0
// Solver counter-example(s) produced by Kani's concrete playback; replay with
//   ./check C03 --replay /verif/replay/cases/c03__q__n0_u5__builders_agree.rs

// failed check (?): 
#[test]
fn kani_concrete_playback_builders_agree_5038334248986813636() {
    let concrete_vals: Vec<Vec<u8>> = vec![
        // 0ul
        vec![0, 0, 0, 0, 0, 0, 0, 0],
    ];
    kani::concrete_playback_run(concrete_vals, crate::c03::q::n0_u5::builders_agree);
}
