// verif-case: property=C16 flavour=da feature=c16 harness=e2::FuseLge3Shards::shift_1 safety_only=0
// SMT model of a violated obligation (edge(sig)[1] = local_edge(local_sig(sig))[1] + shard(sig) * num_vertices()); replayed against the real ShardEdge methods.
#[test]
fn kani_concrete_playback_c16_fuselge3shards_shift_1() {
    let se = sux::func::shard_edge::FuseLge3Shards::verif_from_parts(40, 30, 1);
    let sig = [0x84c452cb4e0800_u64, 0x1004000000000_u64];
    crate::c16_native::check_edge(&se, sig);
}
