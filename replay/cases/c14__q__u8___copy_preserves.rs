// verif-case: property=C14 flavour=da feature=c14 harness=c14::q::u8_::copy_preserves safety_only=0
// Solver counter-example(s) produced by Kani's concrete playback; replay with
//   ./check C14 --replay /verif/replay/cases/c14__q__u8___copy_preserves.rs

// failed check (assertion): assertion failed: wbit(& after, p) == wbit(& dst, p)
#[test]
fn kani_concrete_playback_copy_preserves_9505133294702825443() {
    let concrete_vals: Vec<Vec<u8>> = vec![
        // 1
        vec![1],
        // 15
        vec![15],
        // 9
        vec![9],
        // 1
        vec![1],
        // 207
        vec![207],
        // 207
        vec![207],
        // 207
        vec![207],
        // 207
        vec![207],
        // 1ul
        vec![1, 0, 0, 0, 0, 0, 0, 0],
        // 32ul
        vec![32, 0, 0, 0, 0, 0, 0, 0],
        // 31ul
        vec![31, 0, 0, 0, 0, 0, 0, 0],
        // 19ul
        vec![19, 0, 0, 0, 0, 0, 0, 0],
        // 30ul
        vec![30, 0, 0, 0, 0, 0, 0, 0],
        // 2ul
        vec![2, 0, 0, 0, 0, 0, 0, 0],
        // 31ul
        vec![31, 0, 0, 0, 0, 0, 0, 0],
    ];
    kani::concrete_playback_run(concrete_vals, crate::c14::q::u8_::copy_preserves);
}

// failed check (assertion): attempt to subtract with overflow
#[test]
fn kani_concrete_playback_copy_preserves_10539855555821577993() {
    let concrete_vals: Vec<Vec<u8>> = vec![
        // 1
        vec![1],
        // 15
        vec![15],
        // 1
        vec![1],
        // 1
        vec![1],
        // 79
        vec![79],
        // 79
        vec![79],
        // 79
        vec![79],
        // 79
        vec![79],
        // 8ul
        vec![8, 0, 0, 0, 0, 0, 0, 0],
        // 0ul
        vec![0, 0, 0, 0, 0, 0, 0, 0],
        // 1ul
        vec![1, 0, 0, 0, 0, 0, 0, 0],
        // 0ul
        vec![0, 0, 0, 0, 0, 0, 0, 0],
        // 1ul
        vec![1, 0, 0, 0, 0, 0, 0, 0],
        // 0ul
        vec![0, 0, 0, 0, 0, 0, 0, 0],
    ];
    kani::concrete_playback_run(concrete_vals, crate::c14::q::u8_::copy_preserves);
}
