// verif-case: property=C12 flavour=da feature=c12 harness=c12::qs::bitvec_readers safety_only=1
// Solver counter-example(s) produced by Kani's concrete playback; replay with
//   ./check C12 --replay /verif/replay/cases/c12__qs__bitvec_readers.rs

// failed check (assume): Rust intrinsic assumption failed
#[test]
fn kani_concrete_playback_bitvec_readers_11335360657359117817() {
    let concrete_vals: Vec<Vec<u8>> = vec![
        // 18446744073709551615ul
        vec![255, 255, 255, 255, 255, 255, 255, 255],
        // 18446744073709551615ul
        vec![255, 255, 255, 255, 255, 255, 255, 255],
        // 18446744073709551615ul
        vec![255, 255, 255, 255, 255, 255, 255, 255],
        // 192ul
        vec![192, 0, 0, 0, 0, 0, 0, 0],
        // 4
        vec![4],
        // 128ul
        vec![128, 0, 0, 0, 0, 0, 0, 0],
    ];
    kani::concrete_playback_run(concrete_vals, crate::c12::qs::bitvec_readers);
}
