// verif-case: property=C03 flavour=da feature=c03 harness=c03::q::from0::from_slice_small_values safety_only=0
// Solver counter-example(s) produced by Kani's concrete playback; replay with
//   ./check C03 --replay /verif/replay/cases/c03__q__from0__from_slice_small_values.rs

// failed check (NaN): NaN on division
#[test]
fn kani_concrete_playback_from_slice_small_values_733427132030625756() {
    let concrete_vals: Vec<Vec<u8>> = vec![
    ];
    kani::concrete_playback_run(concrete_vals, crate::c03::q::from0::from_slice_small_values);
}
