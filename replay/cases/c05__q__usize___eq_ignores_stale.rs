// verif-case: property=C05 flavour=da feature=c05 harness=c05::q::usize_::eq_ignores_stale safety_only=0
// Solver counter-example(s) produced by Kani's concrete playback; replay with
//   ./check C05 --replay /verif/replay/cases/c05__q__usize___eq_ignores_stale.rs

// failed check (assertion): assertion failed: x == y
#[test]
fn kani_concrete_playback_eq_ignores_stale_12890131555301603898() {
    let concrete_vals: Vec<Vec<u8>> = vec![
        // 18442521936056549184ul
        vec![64, 255, 255, 248, 252, 255, 240, 255],
        // 13906872103207927807ul
        vec![255, 127, 127, 0, 127, 34, 255, 192],
        // 9259471478573776896ul
        vec![0, 64, 64, 64, 64, 64, 128, 128],
        // 18ul
        vec![18, 0, 0, 0, 0, 0, 0, 0],
        // 4ul
        vec![4, 0, 0, 0, 0, 0, 0, 0],
        // 18442521936056549184ul
        vec![64, 255, 255, 248, 252, 255, 240, 255],
        // 13906872106915692543ul
        vec![255, 127, 127, 221, 127, 34, 255, 192],
        // 9115356290497921024ul
        vec![0, 64, 64, 64, 64, 64, 128, 126],
    ];
    kani::concrete_playback_run(concrete_vals, crate::c05::q::usize_::eq_ignores_stale);
}
