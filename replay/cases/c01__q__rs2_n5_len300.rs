// verif-case: property=C01 flavour=da feature=c01 harness=c01::q::rs2_n5_len300 safety_only=0
// Solver counter-example(s) produced by Kani's concrete playback; replay with
//   ./check C01 --replay /verif/replay/cases/c01__q__rs2_n5_len300.rs

// failed check (assertion): assertion failed: r.rank_zero(p) == p - exp
#[test]
fn kani_concrete_playback_rs2_n5_len300_7965436784688279814() {
    let concrete_vals: Vec<Vec<u8>> = vec![
        // 0ul
        vec![0, 0, 0, 0, 0, 0, 0, 0],
        // 0ul
        vec![0, 0, 0, 0, 0, 0, 0, 0],
        // 0ul
        vec![0, 0, 0, 0, 0, 0, 0, 0],
        // 0ul
        vec![0, 0, 0, 0, 0, 0, 0, 0],
        // 0ul
        vec![0, 0, 0, 0, 0, 0, 0, 0],
        // 9223372036854775808ul
        vec![0, 0, 0, 0, 0, 0, 0, 128],
    ];
    kani::concrete_playback_run(concrete_vals, crate::c01::q::rs2_n5_len300);
}
