// verif-case: property=C04 flavour=da feature=c04 harness=c04::q::n4_u10::pred safety_only=0
// Solver counter-example(s) produced by Kani's concrete playback; replay with
//   ./check C04 --replay /verif/replay/cases/c04__q__n4_u10__pred.rs

// failed check (?): 
#[test]
fn kani_concrete_playback_pred_3342300684213605426() {
    let concrete_vals: Vec<Vec<u8>> = vec![
        // 4ul
        vec![4, 0, 0, 0, 0, 0, 0, 0],
        // 9ul
        vec![9, 0, 0, 0, 0, 0, 0, 0],
        // 9ul
        vec![9, 0, 0, 0, 0, 0, 0, 0],
        // 10ul
        vec![10, 0, 0, 0, 0, 0, 0, 0],
        // 10ul
        vec![10, 0, 0, 0, 0, 0, 0, 0],
        // 1
        vec![1],
        // 2ul
        vec![2, 0, 0, 0, 0, 0, 0, 0],
        // 9ul
        vec![9, 0, 0, 0, 0, 0, 0, 0],
    ];
    kani::concrete_playback_run(concrete_vals, crate::c04::q::n4_u10::pred);
}

// failed check (?): 
#[test]
fn kani_concrete_playback_pred_14386272370808736146() {
    let concrete_vals: Vec<Vec<u8>> = vec![
        // 0ul
        vec![0, 0, 0, 0, 0, 0, 0, 0],
        // 1ul
        vec![1, 0, 0, 0, 0, 0, 0, 0],
        // 1ul
        vec![1, 0, 0, 0, 0, 0, 0, 0],
        // 5ul
        vec![5, 0, 0, 0, 0, 0, 0, 0],
        // 0ul
        vec![0, 0, 0, 0, 0, 0, 0, 0],
        // 0
        vec![0],
        // 0ul
        vec![0, 0, 0, 0, 0, 0, 0, 0],
        // 3ul
        vec![3, 0, 0, 0, 0, 0, 0, 0],
    ];
    kani::concrete_playback_run(concrete_vals, crate::c04::q::n4_u10::pred);
}

// failed check (?): 
#[test]
fn kani_concrete_playback_pred_12192202249141153948() {
    let concrete_vals: Vec<Vec<u8>> = vec![
        // 2ul
        vec![2, 0, 0, 0, 0, 0, 0, 0],
        // 3ul
        vec![3, 0, 0, 0, 0, 0, 0, 0],
        // 3ul
        vec![3, 0, 0, 0, 0, 0, 0, 0],
        // 5ul
        vec![5, 0, 0, 0, 0, 0, 0, 0],
        // 0ul
        vec![0, 0, 0, 0, 0, 0, 0, 0],
        // 0
        vec![0],
        // 1ul
        vec![1, 0, 0, 0, 0, 0, 0, 0],
    ];
    kani::concrete_playback_run(concrete_vals, crate::c04::q::n4_u10::pred);
}

// failed check (?): 
#[test]
fn kani_concrete_playback_pred_8864114242906502095() {
    let concrete_vals: Vec<Vec<u8>> = vec![
        // 6ul
        vec![6, 0, 0, 0, 0, 0, 0, 0],
        // 6ul
        vec![6, 0, 0, 0, 0, 0, 0, 0],
        // 10ul
        vec![10, 0, 0, 0, 0, 0, 0, 0],
        // 10ul
        vec![10, 0, 0, 0, 0, 0, 0, 0],
        // 2111062325327625ul
        vec![9, 247, 255, 255, 255, 127, 7, 0],
        // 0
        vec![0],
        // 3ul
        vec![3, 0, 0, 0, 0, 0, 0, 0],
        // 9ul
        vec![9, 0, 0, 0, 0, 0, 0, 0],
    ];
    kani::concrete_playback_run(concrete_vals, crate::c04::q::n4_u10::pred);
}
