// verif-case: property=C04 flavour=da feature=c04 harness=c04::q::n4_u10::pred safety_only=0
// Solver counter-example(s) produced by Kani's concrete playback; replay with
//   ./check C04 --replay /verif/replay/cases/c04__q__n4_u10__pred.rs

// failed check (?): 
#[test]
fn kani_concrete_playback_pred_8476811433882634966() {
    let concrete_vals: Vec<Vec<u8>> = vec![
        // 3ul
        vec![3, 0, 0, 0, 0, 0, 0, 0],
        // 3ul
        vec![3, 0, 0, 0, 0, 0, 0, 0],
        // 3ul
        vec![3, 0, 0, 0, 0, 0, 0, 0],
        // 3ul
        vec![3, 0, 0, 0, 0, 0, 0, 0],
        // 131ul
        vec![131, 0, 0, 0, 0, 0, 0, 0],
        // 0
        vec![0],
        // 1ul
        vec![1, 0, 0, 0, 0, 0, 0, 0],
    ];
    kani::concrete_playback_run(concrete_vals, crate::c04::q::n4_u10::pred);
}

// failed check (?): 
#[test]
fn kani_concrete_playback_pred_5048208870869061096() {
    let concrete_vals: Vec<Vec<u8>> = vec![
        // 0ul
        vec![0, 0, 0, 0, 0, 0, 0, 0],
        // 1ul
        vec![1, 0, 0, 0, 0, 0, 0, 0],
        // 1ul
        vec![1, 0, 0, 0, 0, 0, 0, 0],
        // 1ul
        vec![1, 0, 0, 0, 0, 0, 0, 0],
        // 1ul
        vec![1, 0, 0, 0, 0, 0, 0, 0],
        // 1
        vec![1],
        // 0ul
        vec![0, 0, 0, 0, 0, 0, 0, 0],
        // 4ul
        vec![4, 0, 0, 0, 0, 0, 0, 0],
    ];
    kani::concrete_playback_run(concrete_vals, crate::c04::q::n4_u10::pred);
}

// failed check (?): 
#[test]
fn kani_concrete_playback_pred_13161133699013340440() {
    let concrete_vals: Vec<Vec<u8>> = vec![
        // 4ul
        vec![4, 0, 0, 0, 0, 0, 0, 0],
        // 9ul
        vec![9, 0, 0, 0, 0, 0, 0, 0],
        // 9ul
        vec![9, 0, 0, 0, 0, 0, 0, 0],
        // 9ul
        vec![9, 0, 0, 0, 0, 0, 0, 0],
        // 2ul
        vec![2, 0, 0, 0, 0, 0, 0, 0],
        // 1
        vec![1],
        // 2ul
        vec![2, 0, 0, 0, 0, 0, 0, 0],
    ];
    kani::concrete_playback_run(concrete_vals, crate::c04::q::n4_u10::pred);
}

// failed check (?): 
#[test]
fn kani_concrete_playback_pred_11658170434527066954() {
    let concrete_vals: Vec<Vec<u8>> = vec![
        // 8ul
        vec![8, 0, 0, 0, 0, 0, 0, 0],
        // 8ul
        vec![8, 0, 0, 0, 0, 0, 0, 0],
        // 10ul
        vec![10, 0, 0, 0, 0, 0, 0, 0],
        // 10ul
        vec![10, 0, 0, 0, 0, 0, 0, 0],
        // 11ul
        vec![11, 0, 0, 0, 0, 0, 0, 0],
        // 0
        vec![0],
        // 4ul
        vec![4, 0, 0, 0, 0, 0, 0, 0],
        // 9ul
        vec![9, 0, 0, 0, 0, 0, 0, 0],
    ];
    kani::concrete_playback_run(concrete_vals, crate::c04::q::n4_u10::pred);
}
