// verif-case: property=C12 flavour=da feature=c12 harness=c12::qs::bfv_u32::readers safety_only=1
// Solver counter-example(s) produced by Kani's concrete playback; replay with
//   ./check C12 --replay /verif/replay/cases/c12__qs__bfv_u32__readers.rs

// failed check (assume): Rust intrinsic assumption failed
#[test]
fn kani_concrete_playback_readers_8214699173739842005() {
    let concrete_vals: Vec<Vec<u8>> = vec![
        // 4294967104
        vec![64, 255, 255, 255],
        // 4294967104
        vec![64, 255, 255, 255],
        // 4294967104
        vec![64, 255, 255, 255],
        // 24ul
        vec![24, 0, 0, 0, 0, 0, 0, 0],
        // 4ul
        vec![4, 0, 0, 0, 0, 0, 0, 0],
        // 2
        vec![2],
        // 4ul
        vec![4, 0, 0, 0, 0, 0, 0, 0],
    ];
    kani::concrete_playback_run(concrete_vals, crate::c12::qs::bfv_u32::readers);
}
