// verif-case: property=C04 flavour=da feature=c04 harness=c04::q::n4_u3::pred safety_only=0
// Solver counter-example(s) produced by Kani's concrete playback; replay with
//   ./check C04 --replay /verif/replay/cases/c04__q__n4_u3__pred.rs

// failed check (?): 
#[test]
fn kani_concrete_playback_pred_12334569768666922671() {
    let concrete_vals: Vec<Vec<u8>> = vec![
        // 0ul
        vec![0, 0, 0, 0, 0, 0, 0, 0],
        // 3ul
        vec![3, 0, 0, 0, 0, 0, 0, 0],
        // 3ul
        vec![3, 0, 0, 0, 0, 0, 0, 0],
        // 3ul
        vec![3, 0, 0, 0, 0, 0, 0, 0],
        // 3ul
        vec![3, 0, 0, 0, 0, 0, 0, 0],
        // 1
        vec![1],
        // 0ul
        vec![0, 0, 0, 0, 0, 0, 0, 0],
        // 7ul
        vec![7, 0, 0, 0, 0, 0, 0, 0],
    ];
    kani::concrete_playback_run(concrete_vals, crate::c04::q::n4_u3::pred);
}

// failed check (?): 
#[test]
fn kani_concrete_playback_pred_3916045496714190626() {
    let concrete_vals: Vec<Vec<u8>> = vec![
        // 0ul
        vec![0, 0, 0, 0, 0, 0, 0, 0],
        // 0ul
        vec![0, 0, 0, 0, 0, 0, 0, 0],
        // 0ul
        vec![0, 0, 0, 0, 0, 0, 0, 0],
        // 1ul
        vec![1, 0, 0, 0, 0, 0, 0, 0],
        // 0ul
        vec![0, 0, 0, 0, 0, 0, 0, 0],
        // 0
        vec![0],
        // 0ul
        vec![0, 0, 0, 0, 0, 0, 0, 0],
        // 3ul
        vec![3, 0, 0, 0, 0, 0, 0, 0],
    ];
    kani::concrete_playback_run(concrete_vals, crate::c04::q::n4_u3::pred);
}

// failed check (?): 
#[test]
fn kani_concrete_playback_pred_13032335947125525813() {
    let concrete_vals: Vec<Vec<u8>> = vec![
        // 0ul
        vec![0, 0, 0, 0, 0, 0, 0, 0],
        // 1ul
        vec![1, 0, 0, 0, 0, 0, 0, 0],
        // 3ul
        vec![3, 0, 0, 0, 0, 0, 0, 0],
        // 3ul
        vec![3, 0, 0, 0, 0, 0, 0, 0],
        // 0ul
        vec![0, 0, 0, 0, 0, 0, 0, 0],
        // 1
        vec![1],
        // 0ul
        vec![0, 0, 0, 0, 0, 0, 0, 0],
    ];
    kani::concrete_playback_run(concrete_vals, crate::c04::q::n4_u3::pred);
}

// failed check (?): 
#[test]
fn kani_concrete_playback_pred_8362638880282524242() {
    let concrete_vals: Vec<Vec<u8>> = vec![
        // 0ul
        vec![0, 0, 0, 0, 0, 0, 0, 0],
        // 0ul
        vec![0, 0, 0, 0, 0, 0, 0, 0],
        // 0ul
        vec![0, 0, 0, 0, 0, 0, 0, 0],
        // 0ul
        vec![0, 0, 0, 0, 0, 0, 0, 0],
        // 1027ul
        vec![3, 4, 0, 0, 0, 0, 0, 0],
        // 0
        vec![0],
        // 0ul
        vec![0, 0, 0, 0, 0, 0, 0, 0],
        // 7ul
        vec![7, 0, 0, 0, 0, 0, 0, 0],
    ];
    kani::concrete_playback_run(concrete_vals, crate::c04::q::n4_u3::pred);
}
