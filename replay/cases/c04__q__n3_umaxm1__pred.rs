// verif-case: property=C04 flavour=da feature=c04 harness=c04::q::n3_umaxm1::pred safety_only=0
// Solver counter-example(s) produced by Kani's concrete playback; replay with
//   ./check C04 --replay /verif/replay/cases/c04__q__n3_umaxm1__pred.rs

// failed check (?): 
#[test]
fn kani_concrete_playback_pred_406493038340721104() {
    let concrete_vals: Vec<Vec<u8>> = vec![
        // 11074350985353625591ul
        vec![247, 255, 255, 247, 139, 255, 175, 153],
        // 18446744073709551614ul
        vec![254, 255, 255, 255, 255, 255, 255, 255],
        // 18446744073709551614ul
        vec![254, 255, 255, 255, 255, 255, 255, 255],
        // 18446744073709551614ul
        vec![254, 255, 255, 255, 255, 255, 255, 255],
        // 1
        vec![1],
        // 2ul
        vec![2, 0, 0, 0, 0, 0, 0, 0],
        // 6ul
        vec![6, 0, 0, 0, 0, 0, 0, 0],
    ];
    kani::concrete_playback_run(concrete_vals, crate::c04::q::n3_umaxm1::pred);
}

// failed check (?): 
#[test]
fn kani_concrete_playback_pred_13042070093573295653() {
    let concrete_vals: Vec<Vec<u8>> = vec![
        // 72057662757928960ul
        vec![0, 0, 8, 0, 16, 0, 0, 1],
        // 72057662757928960ul
        vec![0, 0, 8, 0, 16, 0, 0, 1],
        // 9295429703907147776ul
        vec![0, 0, 0, 0, 17, 0, 0, 129],
        // 72057662757928961ul
        vec![1, 0, 8, 0, 16, 0, 0, 1],
        // 0
        vec![0],
        // 0ul
        vec![0, 0, 0, 0, 0, 0, 0, 0],
        // 2ul
        vec![2, 0, 0, 0, 0, 0, 0, 0],
    ];
    kani::concrete_playback_run(concrete_vals, crate::c04::q::n3_umaxm1::pred);
}

// failed check (?): 
#[test]
fn kani_concrete_playback_pred_1323124142369156916() {
    let concrete_vals: Vec<Vec<u8>> = vec![
        // 9223372036854775807ul
        vec![255, 255, 255, 255, 255, 255, 255, 127],
        // 9223372036854775807ul
        vec![255, 255, 255, 255, 255, 255, 255, 127],
        // 9223372036854775807ul
        vec![255, 255, 255, 255, 255, 255, 255, 127],
        // 9223372036854775806ul
        vec![254, 255, 255, 255, 255, 255, 255, 127],
        // 0
        vec![0],
        // 1ul
        vec![1, 0, 0, 0, 0, 0, 0, 0],
    ];
    kani::concrete_playback_run(concrete_vals, crate::c04::q::n3_umaxm1::pred);
}

// failed check (?): 
#[test]
fn kani_concrete_playback_pred_15757993047309039547() {
    let concrete_vals: Vec<Vec<u8>> = vec![
        // 11074350985353625591ul
        vec![247, 255, 255, 247, 139, 255, 175, 153],
        // 18446744073709551614ul
        vec![254, 255, 255, 255, 255, 255, 255, 255],
        // 18446744073709551614ul
        vec![254, 255, 255, 255, 255, 255, 255, 255],
        // 18446744073709551615ul
        vec![255, 255, 255, 255, 255, 255, 255, 255],
        // 1
        vec![1],
        // 2ul
        vec![2, 0, 0, 0, 0, 0, 0, 0],
        // 6ul
        vec![6, 0, 0, 0, 0, 0, 0, 0],
    ];
    kani::concrete_playback_run(concrete_vals, crate::c04::q::n3_umaxm1::pred);
}
