// verif-case: property=C10 flavour=da feature=c10 harness=c10::q::usize_::copy_wm1 safety_only=0
// Solver counter-example(s) produced by Kani's concrete playback; replay with
//   ./check C10 --replay /verif/replay/cases/c10__q__usize___copy_wm1.rs

// failed check (assertion): assertion failed: d.get(q) == ref_get_usize (& src, w, from + q - to)
#[test]
fn kani_concrete_playback_copy_wm1_6708116717474261165() {
    let concrete_vals: Vec<Vec<u8>> = vec![
        // 72057594037927939ul
        vec![3, 0, 0, 0, 0, 0, 0, 1],
        // 13835058055282262155ul
        vec![139, 128, 1, 0, 0, 0, 0, 192],
        // 4755801214841388033ul
        vec![1, 252, 253, 240, 1, 0, 0, 66],
        // 17445742210704343043ul
        vec![3, 0, 18, 240, 27, 186, 27, 242],
        // 9259400833873739776ul
        vec![0, 0, 0, 0, 0, 0, 128, 128],
        // 4611686018427387906ul
        vec![2, 0, 0, 0, 0, 0, 0, 64],
        // 2ul
        vec![2, 0, 0, 0, 0, 0, 0, 0],
        // 3ul
        vec![3, 0, 0, 0, 0, 0, 0, 0],
        // 0ul
        vec![0, 0, 0, 0, 0, 0, 0, 0],
        // 1ul
        vec![1, 0, 0, 0, 0, 0, 0, 0],
        // 2ul
        vec![2, 0, 0, 0, 0, 0, 0, 0],
        // 1ul
        vec![1, 0, 0, 0, 0, 0, 0, 0],
    ];
    kani::concrete_playback_run(concrete_vals, crate::c10::q::usize_::copy_wm1);
}
