// verif-case: property=C03 flavour=da feature=c03_t harness=c03::t::state::get_iter_from_any_state safety_only=0
// Solver counter-example(s) produced by Kani's concrete playback; replay with
//   ./check C03 --replay /verif/replay/cases/c03__t__state__get_iter_from_any_state.rs

// failed check (assertion): attempt to subtract with overflow
#[test]
fn kani_concrete_playback_get_iter_from_any_state_12465260428998949996() {
    let concrete_vals: Vec<Vec<u8>> = vec![
        // 250196885951542767ul
        vec![239, 245, 12, 255, 189, 224, 120, 3],
        // 0ul
        vec![0, 0, 0, 0, 0, 0, 0, 0],
        // 545460779776ul
        vec![0, 251, 254, 255, 126, 0, 0, 0],
        // 37ul
        vec![37, 0, 0, 0, 0, 0, 0, 0],
        // 57ul
        vec![57, 0, 0, 0, 0, 0, 0, 0],
        // 57ul
        vec![57, 0, 0, 0, 0, 0, 0, 0],
        // 57ul
        vec![57, 0, 0, 0, 0, 0, 0, 0],
        // 136ul
        vec![136, 0, 0, 0, 0, 0, 0, 0],
    ];
    kani::concrete_playback_run(concrete_vals, crate::c03::t::state::get_iter_from_any_state);
}
