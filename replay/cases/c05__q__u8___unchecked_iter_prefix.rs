// verif-case: property=C05 flavour=da feature=c05 harness=c05::q::u8_::unchecked_iter_prefix safety_only=0
// Solver counter-example(s) produced by Kani's concrete playback; replay with
//   ./check C05 --replay /verif/replay/cases/c05__q__u8___unchecked_iter_prefix.rs

// failed check (assume): Rust intrinsic assumption failed
#[test]
fn kani_concrete_playback_unchecked_iter_prefix_12162164422976771525() {
    let concrete_vals: Vec<Vec<u8>> = vec![
        // 255
        vec![255],
        // 156
        vec![156],
        // 255
        vec![255],
        // 255
        vec![255],
        // 8ul
        vec![8, 0, 0, 0, 0, 0, 0, 0],
        // 4ul
        vec![4, 0, 0, 0, 0, 0, 0, 0],
        // 4ul
        vec![4, 0, 0, 0, 0, 0, 0, 0],
    ];
    kani::concrete_playback_run(concrete_vals, crate::c05::q::u8_::unchecked_iter_prefix);
}
