// verif-case: property=C10 flavour=da feature=c10 harness=c10::q::u8_::copy_lengths safety_only=0
// Solver counter-example(s) produced by Kani's concrete playback; replay with
//   ./check C10 --replay /verif/replay/cases/c10__q__u8___copy_lengths.rs

/// Test generated for harness `c10::q::u8_::copy_lengths` 
///
/// Check for `assertion`: "assertion failed: d.get(q) == ref_get_u8 (& src, w, from + q - to)"

#[test]
fn kani_concrete_playback_copy_lengths_18148108528099533562() {
    let concrete_vals: Vec<Vec<u8>> = vec![
        // 101
        vec![101],
        // 227
        vec![227],
        // 195
        vec![195],
        // 101
        vec![101],
        // 197
        vec![197],
        // 130
        vec![130],
        // 130
        vec![130],
        // 131
        vec![131],
        // 1ul
        vec![1, 0, 0, 0, 0, 0, 0, 0],
        // 32ul
        vec![32, 0, 0, 0, 0, 0, 0, 0],
        // 32ul
        vec![32, 0, 0, 0, 0, 0, 0, 0],
        // 0ul
        vec![0, 0, 0, 0, 0, 0, 0, 0],
        // 4ul
        vec![4, 0, 0, 0, 0, 0, 0, 0],
        // 9ul
        vec![9, 0, 0, 0, 0, 0, 0, 0],
        // 10ul
        vec![10, 0, 0, 0, 0, 0, 0, 0],
    ];
    kani::concrete_playback_run(concrete_vals, crate::c10::q::u8_::copy_lengths);
}
