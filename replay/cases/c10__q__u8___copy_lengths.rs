// verif-case: property=C10 flavour=da feature=c10 harness=c10::q::u8_::copy_lengths safety_only=0
// Solver counter-example(s) produced by Kani's concrete playback; replay with
//   ./check C10 --replay /verif/replay/cases/c10__q__u8___copy_lengths.rs

// failed check (assertion): assertion failed: d.get(q) == ref_get_u8 (& src, w, from + q - to)
#[test]
fn kani_concrete_playback_copy_lengths_11846378742018836070() {
    let concrete_vals: Vec<Vec<u8>> = vec![
        // 107
        vec![107],
        // 133
        vec![133],
        // 146
        vec![146],
        // 205
        vec![205],
        // 12
        vec![12],
        // 85
        vec![85],
        // 201
        vec![201],
        // 204
        vec![204],
        // 1ul
        vec![1, 0, 0, 0, 0, 0, 0, 0],
        // 23ul
        vec![23, 0, 0, 0, 0, 0, 0, 0],
        // 17ul
        vec![17, 0, 0, 0, 0, 0, 0, 0],
        // 2ul
        vec![2, 0, 0, 0, 0, 0, 0, 0],
        // 3ul
        vec![3, 0, 0, 0, 0, 0, 0, 0],
        // 14ul
        vec![14, 0, 0, 0, 0, 0, 0, 0],
        // 14ul
        vec![14, 0, 0, 0, 0, 0, 0, 0],
    ];
    kani::concrete_playback_run(concrete_vals, crate::c10::q::u8_::copy_lengths);
}
