// verif-case: property=C10 flavour=da feature=c10 harness=c10::q::u8_::copy_lengths safety_only=0
// Solver counter-example(s) produced by Kani's concrete playback; replay with
//   ./check C10 --replay /verif/replay/cases/c10__q__u8___copy_lengths.rs

// failed check (assertion): attempt to shift left with overflow
#[test]
fn kani_concrete_playback_copy_lengths_1355035502844398751() {
    let concrete_vals: Vec<Vec<u8>> = vec![
        // 33
        vec![33],
        // 129
        vec![129],
        // 68
        vec![68],
        // 240
        vec![240],
        // 126
        vec![126],
        // 51
        vec![51],
        // 41
        vec![41],
        // 243
        vec![243],
        // 8ul
        vec![8, 0, 0, 0, 0, 0, 0, 0],
        // 1ul
        vec![1, 0, 0, 0, 0, 0, 0, 0],
        // 1ul
        vec![1, 0, 0, 0, 0, 0, 0, 0],
        // 0ul
        vec![0, 0, 0, 0, 0, 0, 0, 0],
        // 0ul
        vec![0, 0, 0, 0, 0, 0, 0, 0],
        // 1ul
        vec![1, 0, 0, 0, 0, 0, 0, 0],
    ];
    kani::concrete_playback_run(concrete_vals, crate::c10::q::u8_::copy_lengths);
}
