// verif-case: property=C10 flavour=da feature=c10 harness=c10::q::u8_::apply_in_place safety_only=0
// Solver counter-example(s) produced by Kani's concrete playback; replay with
//   ./check C10 --replay /verif/replay/cases/c10__q__u8___apply_in_place.rs

/// Test generated for harness `c10::q::u8_::apply_in_place` 
///
/// Check for `assertion`: "assertion failed: calls == len"

#[test]
fn kani_concrete_playback_apply_in_place_17066344441712100516() {
    let concrete_vals: Vec<Vec<u8>> = vec![
        // 0
        vec![0],
        // 0
        vec![0],
        // 0
        vec![0],
        // 0
        vec![0],
        // 4ul
        vec![4, 0, 0, 0, 0, 0, 0, 0],
        // 3ul
        vec![3, 0, 0, 0, 0, 0, 0, 0],
        // 240
        vec![240],
        // 241
        vec![241],
        // 241
        vec![241],
        // 241
        vec![241],
        // 240
        vec![240],
        // 242
        vec![242],
        // 241
        vec![241],
        // 241
        vec![241],
    ];
    kani::concrete_playback_run(concrete_vals, crate::c10::q::u8_::apply_in_place);
}

/// Test generated for harness `c10::q::u8_::apply_in_place` 
///
/// Check for `assertion`: "assertion failed: calls < K"

#[test]
fn kani_concrete_playback_apply_in_place_4939001122040769069() {
    let concrete_vals: Vec<Vec<u8>> = vec![
        // 0
        vec![0],
        // 0
        vec![0],
        // 0
        vec![0],
        // 0
        vec![0],
        // 1ul
        vec![1, 0, 0, 0, 0, 0, 0, 0],
        // 1ul
        vec![1, 0, 0, 0, 0, 0, 0, 0],
        // 252
        vec![252],
        // 252
        vec![252],
        // 252
        vec![252],
        // 252
        vec![252],
        // 252
        vec![252],
        // 252
        vec![252],
        // 252
        vec![252],
        // 252
        vec![252],
    ];
    kani::concrete_playback_run(concrete_vals, crate::c10::q::u8_::apply_in_place);
}

/// Test generated for harness `c10::q::u8_::apply_in_place` 
///
/// Check for `assertion`: "attempt to subtract with overflow"

#[test]
fn kani_concrete_playback_apply_in_place_12419174447451469090() {
    let concrete_vals: Vec<Vec<u8>> = vec![
        // 0
        vec![0],
        // 0
        vec![0],
        // 0
        vec![0],
        // 0
        vec![0],
        // 3ul
        vec![3, 0, 0, 0, 0, 0, 0, 0],
        // 3ul
        vec![3, 0, 0, 0, 0, 0, 0, 0],
        // 241
        vec![241],
        // 240
        vec![240],
        // 240
        vec![240],
        // 240
        vec![240],
        // 241
        vec![241],
        // 242
        vec![242],
        // 240
        vec![240],
        // 240
        vec![240],
    ];
    kani::concrete_playback_run(concrete_vals, crate::c10::q::u8_::apply_in_place);
}

/// Test generated for harness `c10::q::u8_::apply_in_place` 
///
/// Check for `assertion`: "attempt to shift right with overflow"

#[test]
fn kani_concrete_playback_apply_in_place_5869411053183249458() {
    let concrete_vals: Vec<Vec<u8>> = vec![
        // 255
        vec![255],
        // 255
        vec![255],
        // 255
        vec![255],
        // 255
        vec![255],
        // 8ul
        vec![8, 0, 0, 0, 0, 0, 0, 0],
        // 4ul
        vec![4, 0, 0, 0, 0, 0, 0, 0],
        // 255
        vec![255],
        // 255
        vec![255],
        // 255
        vec![255],
        // 255
        vec![255],
        // 255
        vec![255],
        // 255
        vec![255],
        // 255
        vec![255],
        // 255
        vec![255],
    ];
    kani::concrete_playback_run(concrete_vals, crate::c10::q::u8_::apply_in_place);
}
