// verif-case: property=C11 flavour=da feature=c11 harness=c11::q::ef::n2_u3 safety_only=0
// Solver counter-example(s) produced by Kani's concrete playback; replay with
//   ./check C11 --replay /verif/replay/cases/c11__q__ef__n2_u3.rs

// failed check (assertion): assertion failed: BitFieldSliceCore :: < usize > :: bit_width(& lb) == L
#[test]
fn kani_concrete_playback_n2_u3_7457686708711933362() {
    let concrete_vals: Vec<Vec<u8>> = vec![
    ];
    kani::concrete_playback_run(concrete_vals, crate::c11::q::ef::n2_u3);
}
