// verif-case: property=C06 flavour=da feature=c06 harness=c06::q::rot0of8_count::r0 safety_only=0
// Solver counter-example(s) produced by Kani's concrete playback; replay with
//   ./check C06 --replay /verif/replay/cases/c06__q__rot0of8_count__r0.rs

// failed check (assertion): attempt to multiply with overflow
#[test]
fn kani_concrete_playback_r0_11610370415286305344() {
    let concrete_vals: Vec<Vec<u8>> = vec![
        // 18446744073709551615ul
        vec![255, 255, 255, 255, 255, 255, 255, 255],
        // 18446744073709551615ul
        vec![255, 255, 255, 255, 255, 255, 255, 255],
        // 18446744073709551615ul
        vec![255, 255, 255, 255, 255, 255, 255, 255],
        // 18158513697557839872ul
        vec![0, 0, 0, 0, 0, 0, 0, 252],
    ];
    kani::concrete_playback_run(concrete_vals, crate::c06::q::rot0of8_count::r0);
}
