// verif-case: property=C12 flavour=da feature=c12 harness=c12::qs::bfv_usize::readers safety_only=1
// Solver counter-example(s) produced by Kani's concrete playback; replay with
//   ./check C12 --replay /verif/replay/cases/c12__qs__bfv_usize__readers.rs

// failed check (assume): Rust intrinsic assumption failed
#[test]
fn kani_concrete_playback_readers_14188649626312457843() {
    let concrete_vals: Vec<Vec<u8>> = vec![
        // 3ul
        vec![3, 0, 0, 0, 0, 0, 0, 0],
        // 2ul
        vec![2, 0, 0, 0, 0, 0, 0, 0],
        // 2ul
        vec![2, 0, 0, 0, 0, 0, 0, 0],
        // 2ul
        vec![2, 0, 0, 0, 0, 0, 0, 0],
        // 96ul
        vec![96, 0, 0, 0, 0, 0, 0, 0],
        // 3
        vec![3],
        // 96ul
        vec![96, 0, 0, 0, 0, 0, 0, 0],
    ];
    kani::concrete_playback_run(concrete_vals, crate::c12::qs::bfv_usize::readers);
}
