// verif-case: property=C06 flavour=da feature=c06 harness=c06::q::resize_130_63 safety_only=0
// Solver counter-example(s) produced by Kani's concrete playback; replay with
//   ./check C06 --replay /verif/replay/cases/c06__q__resize_130_63.rs

// failed check (assertion): assertion failed: v.pop() == Some(b)
#[test]
fn kani_concrete_playback_resize_130_63_11945221193960184465() {
    let concrete_vals: Vec<Vec<u8>> = vec![
        // 0ul
        vec![0, 0, 0, 0, 0, 0, 0, 0],
        // 1ul
        vec![1, 0, 0, 0, 0, 0, 0, 0],
        // 0ul
        vec![0, 0, 0, 0, 0, 0, 0, 0],
        // 0
        vec![0],
        // 9223372036854775808ul
        vec![0, 0, 0, 0, 0, 0, 0, 128],
    ];
    kani::concrete_playback_run(concrete_vals, crate::c06::q::resize_130_63);
}
