// verif-case: property=C10 flavour=da feature=c10 harness=c10::q::u8_::copy_wm1 safety_only=0
// Solver counter-example(s) produced by Kani's concrete playback; replay with
//   ./check C10 --replay /verif/replay/cases/c10__q__u8___copy_wm1.rs

// failed check (assertion): assertion failed: d.get(q) == ref_get_u8 (& src, w, from + q - to)
#[test]
fn kani_concrete_playback_copy_wm1_10727760869440468889() {
    let concrete_vals: Vec<Vec<u8>> = vec![
        // 236
        vec![236],
        // 254
        vec![254],
        // 254
        vec![254],
        // 254
        vec![254],
        // 104
        vec![104],
        // 43
        vec![43],
        // 43
        vec![43],
        // 43
        vec![43],
        // 3ul
        vec![3, 0, 0, 0, 0, 0, 0, 0],
        // 4ul
        vec![4, 0, 0, 0, 0, 0, 0, 0],
        // 0ul
        vec![0, 0, 0, 0, 0, 0, 0, 0],
        // 2ul
        vec![2, 0, 0, 0, 0, 0, 0, 0],
        // 2ul
        vec![2, 0, 0, 0, 0, 0, 0, 0],
        // 2ul
        vec![2, 0, 0, 0, 0, 0, 0, 0],
    ];
    kani::concrete_playback_run(concrete_vals, crate::c10::q::u8_::copy_wm1);
}
