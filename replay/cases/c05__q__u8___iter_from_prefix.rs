// verif-case: property=C05 flavour=da feature=c05 harness=c05::q::u8_::iter_from_prefix safety_only=0
// Solver counter-example(s) produced by Kani's concrete playback; replay with
//   ./check C05 --replay /verif/replay/cases/c05__q__u8___iter_from_prefix.rs

// failed check (assume): Rust intrinsic assumption failed
#[test]
fn kani_concrete_playback_iter_from_prefix_3254360871552774243() {
    let concrete_vals: Vec<Vec<u8>> = vec![
        // 7
        vec![7],
        // 0
        vec![0],
        // 0
        vec![0],
        // 0
        vec![0],
        // 2ul
        vec![2, 0, 0, 0, 0, 0, 0, 0],
        // 16ul
        vec![16, 0, 0, 0, 0, 0, 0, 0],
        // 16ul
        vec![16, 0, 0, 0, 0, 0, 0, 0],
    ];
    kani::concrete_playback_run(concrete_vals, crate::c05::q::u8_::iter_from_prefix);
}
