// verif-case: property=C05 flavour=da feature=c05 harness=c05::q::u8_::eq_ignores_stale safety_only=0
// Solver counter-example(s) produced by Kani's concrete playback; replay with
//   ./check C05 --replay /verif/replay/cases/c05__q__u8___eq_ignores_stale.rs

// failed check (assertion): assertion failed: x == y
#[test]
fn kani_concrete_playback_eq_ignores_stale_477574366617925879() {
    let concrete_vals: Vec<Vec<u8>> = vec![
        // 110
        vec![110],
        // 64
        vec![64],
        // 87
        vec![87],
        // 240
        vec![240],
        // 4ul
        vec![4, 0, 0, 0, 0, 0, 0, 0],
        // 5ul
        vec![5, 0, 0, 0, 0, 0, 0, 0],
        // 110
        vec![110],
        // 64
        vec![64],
        // 103
        vec![103],
        // 240
        vec![240],
    ];
    kani::concrete_playback_run(concrete_vals, crate::c05::q::u8_::eq_ignores_stale);
}
