// verif-case: property=C03 flavour=da feature=c03 harness=c03::q::n1_u5::build_get_iter safety_only=0
// Solver counter-example(s) produced by Kani's concrete playback; replay with
//   ./check C03 --replay /verif/replay/cases/c03__q__n1_u5__build_get_iter.rs

// failed check (?): 
#[test]
fn kani_concrete_playback_build_get_iter_18095099371047769634() {
    let concrete_vals: Vec<Vec<u8>> = vec![
        // 0ul
        vec![0, 0, 0, 0, 0, 0, 0, 0],
        // 9223372036854775808ul
        vec![0, 0, 0, 0, 0, 0, 0, 128],
        // 0ul
        vec![0, 0, 0, 0, 0, 0, 0, 0],
        // 0ul
        vec![0, 0, 0, 0, 0, 0, 0, 0],
    ];
    kani::concrete_playback_run(concrete_vals, crate::c03::q::n1_u5::build_get_iter);
}

// failed check (?): 
#[test]
fn kani_concrete_playback_build_get_iter_7461786520543735450() {
    let concrete_vals: Vec<Vec<u8>> = vec![
        // 4ul
        vec![4, 0, 0, 0, 0, 0, 0, 0],
        // 9223372036854775809ul
        vec![1, 0, 0, 0, 0, 0, 0, 128],
        // 1ul
        vec![1, 0, 0, 0, 0, 0, 0, 0],
    ];
    kani::concrete_playback_run(concrete_vals, crate::c03::q::n1_u5::build_get_iter);
}
