// verif-case: property=C02 flavour=da feature=c02_t harness=c02::t::query_select_adapt_u16_after_map safety_only=0
// Solver counter-example(s) produced by Kani's concrete playback; replay with
//   ./check C02 --replay /verif/replay/cases/c02__t__query_select_adapt_u16_after_map.rs

// failed check (assume): Rust intrinsic assumption failed
#[test]
fn kani_concrete_playback_query_select_adapt_u16_after_map_7440576396446188958() {
    let concrete_vals: Vec<Vec<u8>> = vec![
        // 30476ul
        vec![12, 119, 0, 0, 0, 0, 0, 0],
        // 2ul
        vec![2, 0, 0, 0, 0, 0, 0, 0],
        // 3096259103948800ul
        vec![0, 0, 6, 0, 8, 0, 11, 0],
        // 67ul
        vec![67, 0, 0, 0, 0, 0, 0, 0],
        // 562949954404352ul
        vec![0, 0, 15, 0, 0, 0, 2, 0],
        // 18446744073709518872ul
        vec![24, 128, 255, 255, 255, 255, 255, 255],
        // 9226608896008192000ul
        vec![0, 0, 7, 0, 232, 127, 11, 128],
        // 25ul
        vec![25, 0, 0, 0, 0, 0, 0, 0],
        // 1407392063553536ul
        vec![0, 0, 2, 0, 4, 0, 5, 0],
        // 2ul
        vec![2, 0, 0, 0, 0, 0, 0, 0],
        // 3096259105914880ul
        vec![0, 0, 36, 0, 8, 0, 11, 0],
        // 25ul
        vec![25, 0, 0, 0, 0, 0, 0, 0],
        // 13846739266815655936ul
        vec![0, 0, 0, 0, 0, 128, 41, 192],
        // 35ul
        vec![35, 0, 0, 0, 0, 0, 0, 0],
        // 7600193739227136ul
        vec![0, 0, 13, 0, 86, 0, 27, 0],
        // 18167520892517614002ul
        vec![178, 1, 0, 0, 255, 255, 31, 252],
        // 13844205992025260025ul
        vec![249, 255, 255, 255, 255, 127, 32, 192],
        // 18167520892518137855ul
        vec![255, 255, 7, 0, 255, 255, 31, 252],
        // 6ul
        vec![6, 0, 0, 0, 0, 0, 0, 0],
    ];
    kani::concrete_playback_run(concrete_vals, crate::c02::t::query_select_adapt_u16_after_map);
}

// failed check (assertion): assertion failed: (w & lowmask(p)).count_ones() as usize == r
#[test]
fn kani_concrete_playback_query_select_adapt_u16_after_map_11559866741417306245() {
    let concrete_vals: Vec<Vec<u8>> = vec![
        // 18374123533593972495ul
        vec![15, 143, 3, 231, 0, 0, 254, 254],
        // 0ul
        vec![0, 0, 0, 0, 0, 0, 0, 0],
        // 2814784126976000ul
        vec![0, 0, 2, 0, 8, 0, 10, 0],
        // 15ul
        vec![15, 0, 0, 0, 0, 0, 0, 0],
        // 3940692623753216ul
        vec![0, 0, 2, 0, 10, 0, 14, 0],
        // 31ul
        vec![31, 0, 0, 0, 0, 0, 0, 0],
        // 6474014659903488ul
        vec![0, 0, 19, 0, 21, 0, 23, 0],
        // 57ul
        vec![57, 0, 0, 0, 0, 0, 0, 0],
        // 1688867040264192ul
        vec![0, 0, 2, 0, 4, 0, 6, 0],
        // 63ul
        vec![63, 0, 0, 0, 0, 0, 0, 0],
        // 0ul
        vec![0, 0, 0, 0, 0, 0, 0, 0],
        // 63ul
        vec![63, 0, 0, 0, 0, 0, 0, 0],
        // 0ul
        vec![0, 0, 0, 0, 0, 0, 0, 0],
        // 63ul
        vec![63, 0, 0, 0, 0, 0, 0, 0],
        // 65535ul
        vec![255, 255, 0, 0, 0, 0, 0, 0],
        // 18446744073709551551ul
        vec![191, 255, 255, 255, 255, 255, 255, 255],
        // 35747867511488511ul
        vec![255, 255, 127, 0, 127, 0, 127, 0],
        // 9223372036854775775ul
        vec![223, 255, 255, 255, 255, 255, 255, 127],
        // 14ul
        vec![14, 0, 0, 0, 0, 0, 0, 0],
    ];
    kani::concrete_playback_run(concrete_vals, crate::c02::t::query_select_adapt_u16_after_map);
}
