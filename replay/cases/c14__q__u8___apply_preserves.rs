// verif-case: property=C14 flavour=da feature=c14 harness=c14::q::u8_::apply_preserves safety_only=0
// Solver counter-example(s) produced by Kani's concrete playback; replay with
//   ./check C14 --replay /verif/replay/cases/c14__q__u8___apply_preserves.rs

// failed check (assertion): assertion failed: wbit(& after, p) == wbit(& words, p)
#[test]
fn kani_concrete_playback_apply_preserves_10677608222005821534() {
    let concrete_vals: Vec<Vec<u8>> = vec![
        // 155
        vec![155],
        // 155
        vec![155],
        // 155
        vec![155],
        // 155
        vec![155],
        // 8ul
        vec![8, 0, 0, 0, 0, 0, 0, 0],
        // 2ul
        vec![2, 0, 0, 0, 0, 0, 0, 0],
        // 125
        vec![125],
        // 161
        vec![161],
        // 253
        vec![253],
        // 253
        vec![253],
        // 30ul
        vec![30, 0, 0, 0, 0, 0, 0, 0],
    ];
    kani::concrete_playback_run(concrete_vals, crate::c14::q::u8_::apply_preserves);
}
