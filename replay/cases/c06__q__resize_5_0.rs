// verif-case: property=C06 flavour=da feature=c06 harness=c06::q::resize_5_0 safety_only=0
// Solver counter-example(s) produced by Kani's concrete playback; replay with
//   ./check C06 --replay /verif/replay/cases/c06__q__resize_5_0.rs

// failed check (assertion): assertion failed: v.pop() == Some(b)
#[test]
fn kani_concrete_playback_resize_5_0_3296150554617882604() {
    let concrete_vals: Vec<Vec<u8>> = vec![
        // 2ul
        vec![2, 0, 0, 0, 0, 0, 0, 0],
        // 0ul
        vec![0, 0, 0, 0, 0, 0, 0, 0],
        // 0ul
        vec![0, 0, 0, 0, 0, 0, 0, 0],
        // 0
        vec![0],
        // 0ul
        vec![0, 0, 0, 0, 0, 0, 0, 0],
    ];
    kani::concrete_playback_run(concrete_vals, crate::c06::q::resize_5_0);
}

// failed check (assertion): assertion failed: v.pop() == Some(b)
#[test]
fn kani_concrete_playback_resize_5_0_16569458811408638131() {
    let concrete_vals: Vec<Vec<u8>> = vec![
        // 1ul
        vec![1, 0, 0, 0, 0, 0, 0, 0],
        // 0ul
        vec![0, 0, 0, 0, 0, 0, 0, 0],
        // 0ul
        vec![0, 0, 0, 0, 0, 0, 0, 0],
        // 0
        vec![0],
        // 0ul
        vec![0, 0, 0, 0, 0, 0, 0, 0],
    ];
    kani::concrete_playback_run(concrete_vals, crate::c06::q::resize_5_0);
}
