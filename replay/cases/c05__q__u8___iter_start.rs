// verif-case: property=C05 flavour=da feature=c05 harness=c05::q::u8_::iter_start safety_only=0
// Solver counter-example(s) produced by Kani's concrete playback; replay with
//   ./check C05 --replay /verif/replay/cases/c05__q__u8___iter_start.rs

/// Test generated for harness `c05::q::u8_::iter_start` 
///
/// Check for `assertion`: "attempt to shift right with overflow"

#[test]
fn kani_concrete_playback_iter_start_10225679439324242646() {
    let concrete_vals: Vec<Vec<u8>> = vec![
        // 0
        vec![0],
        // 255
        vec![255],
        // 255
        vec![255],
        // 255
        vec![255],
        // 8ul
        vec![8, 0, 0, 0, 0, 0, 0, 0],
        // 1ul
        vec![1, 0, 0, 0, 0, 0, 0, 0],
    ];
    kani::concrete_playback_run(concrete_vals, crate::c05::q::u8_::iter_start);
}
