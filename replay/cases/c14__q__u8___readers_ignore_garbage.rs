// verif-case: property=C14 flavour=da feature=c14 harness=c14::q::u8_::readers_ignore_garbage safety_only=0
// Solver counter-example(s) produced by Kani's concrete playback; replay with
//   ./check C14 --replay /verif/replay/cases/c14__q__u8___readers_ignore_garbage.rs

// failed check (assertion): assertion failed: x == y
#[test]
fn kani_concrete_playback_readers_ignore_garbage_2704775000555570430() {
    let concrete_vals: Vec<Vec<u8>> = vec![
        // 0
        vec![0],
        // 119
        vec![119],
        // 101
        vec![101],
        // 0
        vec![0],
        // 0
        vec![0],
        // 111
        vec![111],
        // 100
        vec![100],
        // 0
        vec![0],
        // 1ul
        vec![1, 0, 0, 0, 0, 0, 0, 0],
        // 11ul
        vec![11, 0, 0, 0, 0, 0, 0, 0],
        // 10ul
        vec![10, 0, 0, 0, 0, 0, 0, 0],
    ];
    kani::concrete_playback_run(concrete_vals, crate::c14::q::u8_::readers_ignore_garbage);
}
