// verif-case: property=C10 flavour=da feature=c10 harness=c10::q::usize_::copy_w5 safety_only=0
// Solver counter-example(s) produced by Kani's concrete playback; replay with
//   ./check C10 --replay /verif/replay/cases/c10__q__usize___copy_w5.rs

// failed check (assertion): assertion failed: d.get(q) == ref_get_usize (& src, w, from + q - to)
#[test]
fn kani_concrete_playback_copy_w5_11917117896450939824() {
    let concrete_vals: Vec<Vec<u8>> = vec![
        // 668300706063036407ul
        vec![247, 175, 7, 140, 243, 71, 70, 9],
        // 12863427051767ul
        vec![247, 0, 0, 0, 179, 11, 0, 0],
        // 650286307553554423ul
        vec![247, 175, 7, 140, 243, 71, 6, 9],
        // 858088829556426599ul
        vec![103, 7, 113, 127, 62, 139, 232, 11],
        // 858088829556426599ul
        vec![103, 7, 113, 127, 62, 139, 232, 11],
        // 858088829556426599ul
        vec![103, 7, 113, 127, 62, 139, 232, 11],
        // 32ul
        vec![32, 0, 0, 0, 0, 0, 0, 0],
        // 38ul
        vec![38, 0, 0, 0, 0, 0, 0, 0],
        // 0ul
        vec![0, 0, 0, 0, 0, 0, 0, 0],
        // 4ul
        vec![4, 0, 0, 0, 0, 0, 0, 0],
        // 24ul
        vec![24, 0, 0, 0, 0, 0, 0, 0],
        // 13ul
        vec![13, 0, 0, 0, 0, 0, 0, 0],
    ];
    kani::concrete_playback_run(concrete_vals, crate::c10::q::usize_::copy_w5);
}
