// verif-case: property=C10 flavour=da feature=c10 harness=c10::q::usize_::apply_in_place safety_only=0
// Solver counter-example(s) produced by Kani's concrete playback; replay with
//   ./check C10 --replay /verif/replay/cases/c10__q__usize___apply_in_place.rs

/// Test generated for harness `c10::q::usize_::apply_in_place` 
///
/// Check for `assertion`: "assertion failed: calls < K"

#[test]
fn kani_concrete_playback_apply_in_place_13744887783705707213() {
    let concrete_vals: Vec<Vec<u8>> = vec![
        // 15ul
        vec![15, 0, 0, 0, 0, 0, 0, 0],
        // 15ul
        vec![15, 0, 0, 0, 0, 0, 0, 0],
        // 15ul
        vec![15, 0, 0, 0, 0, 0, 0, 0],
        // 2ul
        vec![2, 0, 0, 0, 0, 0, 0, 0],
        // 2ul
        vec![2, 0, 0, 0, 0, 0, 0, 0],
        // 18446744073709551615ul
        vec![255, 255, 255, 255, 255, 255, 255, 255],
        // 18446744073709551615ul
        vec![255, 255, 255, 255, 255, 255, 255, 255],
        // 18446744073709551614ul
        vec![254, 255, 255, 255, 255, 255, 255, 255],
        // 18438018349431521276ul
        vec![252, 255, 255, 255, 255, 255, 224, 255],
    ];
    kani::concrete_playback_run(concrete_vals, crate::c10::q::usize_::apply_in_place);
}

/// Test generated for harness `c10::q::usize_::apply_in_place` 
///
/// Check for `assertion`: "attempt to shift right with overflow"

#[test]
fn kani_concrete_playback_apply_in_place_9227570004592413343() {
    let concrete_vals: Vec<Vec<u8>> = vec![
        // 12884901890ul
        vec![2, 0, 0, 0, 3, 0, 0, 0],
        // 12884901890ul
        vec![2, 0, 0, 0, 3, 0, 0, 0],
        // 12884901890ul
        vec![2, 0, 0, 0, 3, 0, 0, 0],
        // 64ul
        vec![64, 0, 0, 0, 0, 0, 0, 0],
        // 2ul
        vec![2, 0, 0, 0, 0, 0, 0, 0],
        // 18437736874454810624ul
        vec![0, 0, 0, 0, 0, 0, 224, 255],
        // 0ul
        vec![0, 0, 0, 0, 0, 0, 0, 0],
        // 0ul
        vec![0, 0, 0, 0, 0, 0, 0, 0],
        // 1ul
        vec![1, 0, 0, 0, 0, 0, 0, 0],
    ];
    kani::concrete_playback_run(concrete_vals, crate::c10::q::usize_::apply_in_place);
}

/// Test generated for harness `c10::q::usize_::apply_in_place` 
///
/// Check for `assertion`: "attempt to subtract with overflow"

#[test]
fn kani_concrete_playback_apply_in_place_13573075679773263136() {
    let concrete_vals: Vec<Vec<u8>> = vec![
        // 4503599627304959ul
        vec![255, 255, 254, 255, 255, 255, 15, 0],
        // 4503599627304959ul
        vec![255, 255, 254, 255, 255, 255, 15, 0],
        // 4503599627304959ul
        vec![255, 255, 254, 255, 255, 255, 15, 0],
        // 53ul
        vec![53, 0, 0, 0, 0, 0, 0, 0],
        // 1ul
        vec![1, 0, 0, 0, 0, 0, 0, 0],
        // 18446744073709551614ul
        vec![254, 255, 255, 255, 255, 255, 255, 255],
        // 18446744073709551615ul
        vec![255, 255, 255, 255, 255, 255, 255, 255],
        // 18446744073709551612ul
        vec![252, 255, 255, 255, 255, 255, 255, 255],
        // 18438018349431521276ul
        vec![252, 255, 255, 255, 255, 255, 224, 255],
    ];
    kani::concrete_playback_run(concrete_vals, crate::c10::q::usize_::apply_in_place);
}
