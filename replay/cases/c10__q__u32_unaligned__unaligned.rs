// verif-case: property=C10 flavour=da feature=c10 harness=c10::q::u32_unaligned::unaligned safety_only=0
// Solver counter-example(s) produced by Kani's concrete playback; replay with
//   ./check C10 --replay /verif/replay/cases/c10__q__u32_unaligned__unaligned.rs

/// Test generated for harness `c10::q::u32_unaligned::unaligned` 
///
/// Check for `assertion`: "assertion failed: v.get_unaligned(i) == ref_get_u32(&words, w, i)"

#[test]
fn kani_concrete_playback_unaligned_1801295617598433671() {
    let concrete_vals: Vec<Vec<u8>> = vec![
        // 134217727
        vec![255, 255, 255, 7],
        // 4294967295
        vec![255, 255, 255, 255],
        // 4294909888
        vec![192, 31, 255, 255],
        // 26ul
        vec![26, 0, 0, 0, 0, 0, 0, 0],
        // 2ul
        vec![2, 0, 0, 0, 0, 0, 0, 0],
        // 1ul
        vec![1, 0, 0, 0, 0, 0, 0, 0],
    ];
    kani::concrete_playback_run(concrete_vals, crate::c10::q::u32_unaligned::unaligned);
}

/// Test generated for harness `c10::q::u32_unaligned::unaligned` 
///
/// Check for `assertion`: "assertion failed: (index * self.bit_width) / W::BYTES + W::BYTES <= self.bits.as_ref().len() *
W::BYTES"

#[test]
fn kani_concrete_playback_unaligned_17365872679369814923() {
    let concrete_vals: Vec<Vec<u8>> = vec![
        // 4294967295
        vec![255, 255, 255, 255],
        // 134168575
        vec![255, 63, 255, 7],
        // 133185535
        vec![255, 63, 240, 7],
        // 6ul
        vec![6, 0, 0, 0, 0, 0, 0, 0],
        // 9ul
        vec![9, 0, 0, 0, 0, 0, 0, 0],
        // 8ul
        vec![8, 0, 0, 0, 0, 0, 0, 0],
    ];
    kani::concrete_playback_run(concrete_vals, crate::c10::q::u32_unaligned::unaligned);
}
