// verif-case: property=C13 flavour=da feature=c13 harness=c13::q::bitvec_set safety_only=0
// Solver counter-example(s) produced by Kani's concrete playback; replay with
//   ./check C13 --replay /verif/replay/cases/c13__q__bitvec_set.rs

// failed check (assertion): assertion failed: v.get(i, Ordering::Relaxed) == b
#[test]
fn kani_concrete_playback_bitvec_set_14274912448594043121() {
    let concrete_vals: Vec<Vec<u8>> = vec![
        // 16131330912601047151ul
        vec![111, 0, 221, 95, 255, 255, 221, 223],
        // 6907958875578499087ul
        vec![15, 0, 221, 85, 255, 255, 221, 95],
        // 121ul
        vec![121, 0, 0, 0, 0, 0, 0, 0],
        // 0
        vec![0],
        // 1
        vec![1],
        // 6917529027607331055ul
        vec![239, 0, 253, 253, 255, 255, 255, 95],
        // 6773413839531475183ul
        vec![239, 0, 253, 253, 255, 255, 255, 93],
    ];
    kani::concrete_playback_run(concrete_vals, crate::c13::q::bitvec_set);
}

// failed check (assertion): assertion failed: POSTS == 1
#[test]
fn kani_concrete_playback_bitvec_set_2501782075078426564() {
    let concrete_vals: Vec<Vec<u8>> = vec![
        // 18446744073709551614ul
        vec![254, 255, 255, 255, 255, 255, 255, 255],
        // 18446744073709551614ul
        vec![254, 255, 255, 255, 255, 255, 255, 255],
        // 64ul
        vec![64, 0, 0, 0, 0, 0, 0, 0],
        // 0
        vec![0],
    ];
    kani::concrete_playback_run(concrete_vals, crate::c13::q::bitvec_set);
}
