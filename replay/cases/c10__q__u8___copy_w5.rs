// verif-case: property=C10 flavour=da feature=c10 harness=c10::q::u8_::copy_w5 safety_only=0
// Solver counter-example(s) produced by Kani's concrete playback; replay with
//   ./check C10 --replay /verif/replay/cases/c10__q__u8___copy_w5.rs

// failed check (assertion): assertion failed: d.get(q) == ref_get_u8 (& src, w, from + q - to)
#[test]
fn kani_concrete_playback_copy_w5_12917511337735006022() {
    let concrete_vals: Vec<Vec<u8>> = vec![
        // 32
        vec![32],
        // 191
        vec![191],
        // 177
        vec![177],
        // 31
        vec![31],
        // 205
        vec![205],
        // 77
        vec![77],
        // 177
        vec![177],
        // 207
        vec![207],
        // 5ul
        vec![5, 0, 0, 0, 0, 0, 0, 0],
        // 6ul
        vec![6, 0, 0, 0, 0, 0, 0, 0],
        // 0ul
        vec![0, 0, 0, 0, 0, 0, 0, 0],
        // 3ul
        vec![3, 0, 0, 0, 0, 0, 0, 0],
        // 9223372036854775811ul
        vec![3, 0, 0, 0, 0, 0, 0, 128],
        // 3ul
        vec![3, 0, 0, 0, 0, 0, 0, 0],
    ];
    kani::concrete_playback_run(concrete_vals, crate::c10::q::u8_::copy_w5);
}
