// verif-case: property=C01 flavour=da feature=c01 harness=c01::q::rs0_n9_len513 safety_only=0
// Solver counter-example(s) produced by Kani's concrete playback; replay with
//   ./check C01 --replay /verif/replay/cases/c01__q__rs0_n9_len513.rs

// failed check (assertion): assertion failed: r.rank(p) == exp
#[test]
fn kani_concrete_playback_rs0_n9_len513_7057873021974578029() {
    let concrete_vals: Vec<Vec<u8>> = vec![
        // 15055334542409676287ul
        vec![255, 53, 255, 238, 255, 74, 239, 208],
        // 13906128273801216255ul
        vec![255, 0, 240, 184, 252, 125, 252, 192],
        // 13907079341813989375ul
        vec![255, 255, 254, 127, 250, 222, 255, 192],
        // 18446648414301121520ul
        vec![240, 235, 240, 142, 255, 168, 255, 255],
        // 14858641825257553892ul
        vec![228, 255, 60, 255, 3, 128, 52, 206],
        // 148350506815705343ul
        vec![255, 208, 255, 252, 255, 11, 15, 2],
        // 1120408056442650400ul
        vec![32, 255, 191, 239, 48, 125, 140, 15],
        // 3314641010687ul
        vec![255, 255, 255, 191, 3, 3, 0, 0],
        // 18158442929376460799ul
        vec![255, 255, 175, 255, 162, 191, 255, 251],
        // 8191ul
        vec![255, 31, 0, 0, 0, 0, 0, 0],
    ];
    kani::concrete_playback_run(concrete_vals, crate::c01::q::rs0_n9_len513);
}

// failed check (assertion): assertion failed: r.num_ones() == total
#[test]
fn kani_concrete_playback_rs0_n9_len513_4975227389396472521() {
    let concrete_vals: Vec<Vec<u8>> = vec![
        // 18446744073709551615ul
        vec![255, 255, 255, 255, 255, 255, 255, 255],
        // 18446744073709551615ul
        vec![255, 255, 255, 255, 255, 255, 255, 255],
        // 18446744073709551615ul
        vec![255, 255, 255, 255, 255, 255, 255, 255],
        // 18446744073709551615ul
        vec![255, 255, 255, 255, 255, 255, 255, 255],
        // 18446744073709551615ul
        vec![255, 255, 255, 255, 255, 255, 255, 255],
        // 18446744073709551615ul
        vec![255, 255, 255, 255, 255, 255, 255, 255],
        // 18446744073709551615ul
        vec![255, 255, 255, 255, 255, 255, 255, 255],
        // 18446744073709551615ul
        vec![255, 255, 255, 255, 255, 255, 255, 255],
        // 18446744073709551615ul
        vec![255, 255, 255, 255, 255, 255, 255, 255],
        // 512ul
        vec![0, 2, 0, 0, 0, 0, 0, 0],
    ];
    kani::concrete_playback_run(concrete_vals, crate::c01::q::rs0_n9_len513);
}
