// verif-case: property=C10 flavour=da feature=c10 harness=c10::q::u8_::unaligned safety_only=0
// Solver counter-example(s) produced by Kani's concrete playback; replay with
//   ./check C10 --replay /verif/replay/cases/c10__q__u8___unaligned.rs

// failed check (assertion): assertion failed: v.get_unaligned(i) == ref_get_u8 (& words, w, i)
#[test]
fn kani_concrete_playback_unaligned_7776974136809345422() {
    let concrete_vals: Vec<Vec<u8>> = vec![
        // 251
        vec![251],
        // 227
        vec![227],
        // 255
        vec![255],
        // 227
        vec![227],
        // 2ul
        vec![2, 0, 0, 0, 0, 0, 0, 0],
        // 12ul
        vec![12, 0, 0, 0, 0, 0, 0, 0],
        // 1ul
        vec![1, 0, 0, 0, 0, 0, 0, 0],
    ];
    kani::concrete_playback_run(concrete_vals, crate::c10::q::u8_::unaligned);
}

// failed check (assertion): assertion failed: (index * self.bit_width) / W::BYTES + W::BYTES <= self.bits.as_ref().len() * W::BYTES
#[test]
fn kani_concrete_playback_unaligned_6081700014054518725() {
    let concrete_vals: Vec<Vec<u8>> = vec![
        // 3
        vec![3],
        // 0
        vec![0],
        // 0
        vec![0],
        // 0
        vec![0],
        // 4ul
        vec![4, 0, 0, 0, 0, 0, 0, 0],
        // 6ul
        vec![6, 0, 0, 0, 0, 0, 0, 0],
        // 1ul
        vec![1, 0, 0, 0, 0, 0, 0, 0],
    ];
    kani::concrete_playback_run(concrete_vals, crate::c10::q::u8_::unaligned);
}
