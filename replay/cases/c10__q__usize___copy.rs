// verif-case: property=C10 flavour=da feature=c10 harness=c10::q::usize_::copy safety_only=0
// Solver counter-example(s) produced by Kani's concrete playback; replay with
//   ./check C10 --replay /verif/replay/cases/c10__q__usize___copy.rs

/// Test generated for harness `c10::q::usize_::copy` 
///
/// Check for `assertion`: "assertion failed: d.get(q) == ref_get_usize (& src, w, from + q - to)"

#[test]
fn kani_concrete_playback_copy_14742716081180216687() {
    let concrete_vals: Vec<Vec<u8>> = vec![
        // 4785251607966996ul
        vec![20, 245, 64, 54, 41, 0, 17, 0],
        // 9428484767391752767ul
        vec![63, 34, 145, 18, 241, 180, 216, 130],
        // 10573534105067978813ul
        vec![61, 0, 14, 97, 63, 189, 188, 146],
        // 2671479003977613342ul
        vec![30, 0, 0, 1, 0, 0, 19, 37],
        // 14101959584176171423ul
        vec![159, 105, 188, 195, 134, 57, 180, 195],
        // 12107823744425133196ul
        vec![140, 4, 128, 169, 139, 161, 7, 168],
        // 6ul
        vec![6, 0, 0, 0, 0, 0, 0, 0],
        // 6ul
        vec![6, 0, 0, 0, 0, 0, 0, 0],
        // 8ul
        vec![8, 0, 0, 0, 0, 0, 0, 0],
        // 24ul
        vec![24, 0, 0, 0, 0, 0, 0, 0],
        // 22ul
        vec![22, 0, 0, 0, 0, 0, 0, 0],
    ];
    kani::concrete_playback_run(concrete_vals, crate::c10::q::usize_::copy);
}
