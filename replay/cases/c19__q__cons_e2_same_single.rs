// verif-case: property=C19 flavour=da feature=c19 harness=c19::q::cons_e2_same_single safety_only=0
// Solver counter-example(s) produced by Kani's concrete playback; replay with
//   ./check C19 --replay /verif/replay/cases/c19__q__cons_e2_same_single.rs

// failed check (assertion): index out of bounds: the length is less than or equal to the given index
#[test]
fn kani_concrete_playback_cons_e2_same_single_10527654919949623963() {
    let concrete_vals: Vec<Vec<u8>> = vec![
        // 0
        vec![0],
    ];
    kani::concrete_playback_run(concrete_vals, crate::c19::q::cons_e2_same_single);
}
