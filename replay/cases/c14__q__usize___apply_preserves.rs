// verif-case: property=C14 flavour=da feature=c14 harness=c14::q::usize_::apply_preserves safety_only=0
// Solver counter-example(s) produced by Kani's concrete playback; replay with
//   ./check C14 --replay /verif/replay/cases/c14__q__usize___apply_preserves.rs

// failed check (assertion): assertion failed: wbit(& after, p) == wbit(& words, p)
#[test]
fn kani_concrete_playback_apply_preserves_3317841466115260581() {
    let concrete_vals: Vec<Vec<u8>> = vec![
        // 3458764513820540927ul
        vec![255, 255, 255, 255, 255, 255, 255, 47],
        // 3458764513820540927ul
        vec![255, 255, 255, 255, 255, 255, 255, 47],
        // 3458764513820540927ul
        vec![255, 255, 255, 255, 255, 255, 255, 47],
        // 64ul
        vec![64, 0, 0, 0, 0, 0, 0, 0],
        // 2ul
        vec![2, 0, 0, 0, 0, 0, 0, 0],
        // 864691128455135232ul
        vec![0, 0, 0, 0, 0, 0, 0, 12],
        // 864691128455135232ul
        vec![0, 0, 0, 0, 0, 0, 0, 12],
        // 864691128455135232ul
        vec![0, 0, 0, 0, 0, 0, 0, 12],
        // 864691128455135232ul
        vec![0, 0, 0, 0, 0, 0, 0, 12],
        // 185ul
        vec![185, 0, 0, 0, 0, 0, 0, 0],
    ];
    kani::concrete_playback_run(concrete_vals, crate::c14::q::usize_::apply_preserves);
}
