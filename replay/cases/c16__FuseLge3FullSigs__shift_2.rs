// verif-case: property=C16 flavour=da feature=c16 harness=e2::FuseLge3FullSigs::shift_2 safety_only=0
// SMT model of a violated obligation (edge(sig)[2] = local_edge(local_sig(sig))[2] + shard(sig) * num_vertices()); replayed against the real ShardEdge methods.
#[test]
fn kani_concrete_playback_c16_fuselge3fullsigs_shift_2() {
    let se = sux::func::shard_edge::FuseLge3FullSigs::verif_from_parts(31, 18, 16382);
    let sig = [0x49d2140438b9088b_u64, 0x0_u64];
    crate::c16_native::check_edge(&se, sig);
}
