// verif-case: property=C04 flavour=da feature=c04_t harness=c04::t::state::pred_value safety_only=0
// Solver counter-example(s) produced by Kani's concrete playback; replay with
//   ./check C04 --replay /verif/replay/cases/c04__t__state__pred_value.rs

// failed check (assertion): assertion failed: v == x_at(& high, j)
#[test]
fn kani_concrete_playback_pred_value_918178037283697413() {
    let concrete_vals: Vec<Vec<u8>> = vec![
        // 18446744071342948425ul
        vec![73, 128, 240, 114, 255, 255, 255, 255],
        // 0ul
        vec![0, 0, 0, 0, 0, 0, 0, 0],
        // 0ul
        vec![0, 0, 0, 0, 0, 0, 0, 0],
        // 86ul
        vec![86, 0, 0, 0, 0, 0, 0, 0],
        // 0ul
        vec![0, 0, 0, 0, 0, 0, 0, 0],
        // 0ul
        vec![0, 0, 0, 0, 0, 0, 0, 0],
        // 130ul
        vec![130, 0, 0, 0, 0, 0, 0, 0],
        // 63ul
        vec![63, 0, 0, 0, 0, 0, 0, 0],
    ];
    kani::concrete_playback_run(concrete_vals, crate::c04::t::state::pred_value);
}
