// verif-case: property=C16 flavour=da feature=c16 harness=e2::FuseLge3NoShards_1::nopanic_0 safety_only=0
// SMT model of a violated obligation (no panic: attempt to compute `{} + {}`, which would overflow in edge_1); replayed against the real ShardEdge methods.
#[test]
fn kani_concrete_playback_c16_fuselge3noshards_1_nopanic_0() {
    let se = sux::func::shard_edge::FuseLge3NoShards::verif_from_parts(18, 4294967294);
    let sig = [0x0_u64];
    crate::c16_native::check_edge(&se, sig);
}
