// verif-case: property=C12 flavour=da feature=c12 harness=c12::qs::bitvec_tiny_backends safety_only=1
// Solver counter-example(s) produced by Kani's concrete playback; replay with
//   ./check C12 --replay /verif/replay/cases/c12__qs__bitvec_tiny_backends.rs

// failed check (assume): Rust intrinsic assumption failed
#[test]
fn kani_concrete_playback_bitvec_tiny_backends_4645442395783927358() {
    let concrete_vals: Vec<Vec<u8>> = vec![
        // 18446744073709551615ul
        vec![255, 255, 255, 255, 255, 255, 255, 255],
        // 4
        vec![4],
        // 0ul
        vec![0, 0, 0, 0, 0, 0, 0, 0],
        // 64ul
        vec![64, 0, 0, 0, 0, 0, 0, 0],
    ];
    kani::concrete_playback_run(concrete_vals, crate::c12::qs::bitvec_tiny_backends);
}
