// verif-case: property=C04 flavour=da feature=c04 harness=c04::q::n1_u5::pred safety_only=0
// Solver counter-example(s) produced by Kani's concrete playback; replay with
//   ./check C04 --replay /verif/replay/cases/c04__q__n1_u5__pred.rs

// failed check (?): 
#[test]
fn kani_concrete_playback_pred_10191021729982421907() {
    let concrete_vals: Vec<Vec<u8>> = vec![
        // 0ul
        vec![0, 0, 0, 0, 0, 0, 0, 0],
        // 2305845826712238333ul
        vec![253, 248, 255, 255, 143, 2, 0, 32],
        // 0
        vec![0],
        // 0ul
        vec![0, 0, 0, 0, 0, 0, 0, 0],
    ];
    kani::concrete_playback_run(concrete_vals, crate::c04::q::n1_u5::pred);
}

// failed check (?): 
#[test]
fn kani_concrete_playback_pred_1478132624345411759() {
    let concrete_vals: Vec<Vec<u8>> = vec![
        // 1ul
        vec![1, 0, 0, 0, 0, 0, 0, 0],
        // 4ul
        vec![4, 0, 0, 0, 0, 0, 0, 0],
        // 1
        vec![1],
        // 0ul
        vec![0, 0, 0, 0, 0, 0, 0, 0],
        // 2ul
        vec![2, 0, 0, 0, 0, 0, 0, 0],
    ];
    kani::concrete_playback_run(concrete_vals, crate::c04::q::n1_u5::pred);
}

// failed check (?): 
#[test]
fn kani_concrete_playback_pred_11332422780112090329() {
    let concrete_vals: Vec<Vec<u8>> = vec![
        // 4ul
        vec![4, 0, 0, 0, 0, 0, 0, 0],
        // 0ul
        vec![0, 0, 0, 0, 0, 0, 0, 0],
        // 1
        vec![1],
        // 1ul
        vec![1, 0, 0, 0, 0, 0, 0, 0],
    ];
    kani::concrete_playback_run(concrete_vals, crate::c04::q::n1_u5::pred);
}

// failed check (?): 
#[test]
fn kani_concrete_playback_pred_14489614038143714097() {
    let concrete_vals: Vec<Vec<u8>> = vec![
        // 1ul
        vec![1, 0, 0, 0, 0, 0, 0, 0],
        // 6ul
        vec![6, 0, 0, 0, 0, 0, 0, 0],
        // 1
        vec![1],
        // 0ul
        vec![0, 0, 0, 0, 0, 0, 0, 0],
        // 2ul
        vec![2, 0, 0, 0, 0, 0, 0, 0],
    ];
    kani::concrete_playback_run(concrete_vals, crate::c04::q::n1_u5::pred);
}
