// verif-case: property=C12 flavour=da feature=c12 harness=c12::qs::bitvec_capacity_resize safety_only=1
// Solver counter-example(s) produced by Kani's concrete playback; replay with
//   ./check C12 --replay /verif/replay/cases/c12__qs__bitvec_capacity_resize.rs

// failed check (assume): Rust intrinsic assumption failed
#[test]
fn kani_concrete_playback_bitvec_capacity_resize_18098644325920371397() {
    let concrete_vals: Vec<Vec<u8>> = vec![
        // 0
        vec![0],
        // 0ul
        vec![0, 0, 0, 0, 0, 0, 0, 0],
    ];
    kani::concrete_playback_run(concrete_vals, crate::c12::qs::bitvec_capacity_resize);
}
