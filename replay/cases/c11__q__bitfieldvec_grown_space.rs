// verif-case: property=C11 flavour=da feature=c11 harness=c11::q::bitfieldvec_grown_space safety_only=0
// Solver counter-example(s) produced by Kani's concrete playback; replay with
//   ./check C11 --replay /verif/replay/cases/c11__q__bitfieldvec_grown_space.rs

// failed check (assertion): assertion failed: v.as_slice().len() == words
#[test]
fn kani_concrete_playback_bitfieldvec_grown_space_14262540969772773318() {
    let concrete_vals: Vec<Vec<u8>> = vec![
        // 0ul
        vec![0, 0, 0, 0, 0, 0, 0, 0],
    ];
    kani::concrete_playback_run(concrete_vals, crate::c11::q::bitfieldvec_grown_space);
}
