// verif-case: property=C03 flavour=da feature=c03 harness=c03::q::n2_u2p32::build_get_iter safety_only=0
// Solver counter-example(s) produced by Kani's concrete playback; replay with
//   ./check C03 --replay /verif/replay/cases/c03__q__n2_u2p32__build_get_iter.rs

// failed check (?): 
#[test]
fn kani_concrete_playback_build_get_iter_17996108838629529254() {
    let concrete_vals: Vec<Vec<u8>> = vec![
        // 0ul
        vec![0, 0, 0, 0, 0, 0, 0, 0],
        // 4294967296ul
        vec![0, 0, 0, 0, 1, 0, 0, 0],
        // 256ul
        vec![0, 1, 0, 0, 0, 0, 0, 0],
        // 2ul
        vec![2, 0, 0, 0, 0, 0, 0, 0],
    ];
    kani::concrete_playback_run(concrete_vals, crate::c03::q::n2_u2p32::build_get_iter);
}

// failed check (?): 
#[test]
fn kani_concrete_playback_build_get_iter_11759413826566770899() {
    let concrete_vals: Vec<Vec<u8>> = vec![
        // 4294967296ul
        vec![0, 0, 0, 0, 1, 0, 0, 0],
        // 4294967296ul
        vec![0, 0, 0, 0, 1, 0, 0, 0],
        // 3ul
        vec![3, 0, 0, 0, 0, 0, 0, 0],
        // 0ul
        vec![0, 0, 0, 0, 0, 0, 0, 0],
        // 2ul
        vec![2, 0, 0, 0, 0, 0, 0, 0],
    ];
    kani::concrete_playback_run(concrete_vals, crate::c03::q::n2_u2p32::build_get_iter);
}

// failed check (?): 
#[test]
fn kani_concrete_playback_build_get_iter_9047158839700478472() {
    let concrete_vals: Vec<Vec<u8>> = vec![
        // 0ul
        vec![0, 0, 0, 0, 0, 0, 0, 0],
        // 4294967296ul
        vec![0, 0, 0, 0, 1, 0, 0, 0],
        // 1ul
        vec![1, 0, 0, 0, 0, 0, 0, 0],
        // 3ul
        vec![3, 0, 0, 0, 0, 0, 0, 0],
        // 1ul
        vec![1, 0, 0, 0, 0, 0, 0, 0],
        // 3ul
        vec![3, 0, 0, 0, 0, 0, 0, 0],
    ];
    kani::concrete_playback_run(concrete_vals, crate::c03::q::n2_u2p32::build_get_iter);
}
