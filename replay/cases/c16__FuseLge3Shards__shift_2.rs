// verif-case: property=C16 flavour=da feature=c16 harness=e2::FuseLge3Shards::shift_2 safety_only=0
// SMT model of a violated obligation (edge(sig)[2] = local_edge(local_sig(sig))[2] + shard(sig) * num_vertices()); replayed against the real ShardEdge methods.
#[test]
fn kani_concrete_playback_c16_fuselge3shards_shift_2() {
    let se = sux::func::shard_edge::FuseLge3Shards::verif_from_parts(33, 30, 2);
    let sig = [0xfe39991c00000000_u64, 0x7ffff4df57155554_u64];
    crate::c16_native::check_edge(&se, sig);
}
