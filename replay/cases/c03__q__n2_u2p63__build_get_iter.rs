// verif-case: property=C03 flavour=da feature=c03 harness=c03::q::n2_u2p63::build_get_iter safety_only=0
// Solver counter-example(s) produced by Kani's concrete playback; replay with
//   ./check C03 --replay /verif/replay/cases/c03__q__n2_u2p63__build_get_iter.rs

// failed check (?): 
#[test]
fn kani_concrete_playback_build_get_iter_7422692322059487428() {
    let concrete_vals: Vec<Vec<u8>> = vec![
        // 0ul
        vec![0, 0, 0, 0, 0, 0, 0, 0],
        // 9223372036854775808ul
        vec![0, 0, 0, 0, 0, 0, 0, 128],
        // 1ul
        vec![1, 0, 0, 0, 0, 0, 0, 0],
        // 3ul
        vec![3, 0, 0, 0, 0, 0, 0, 0],
        // 2ul
        vec![2, 0, 0, 0, 0, 0, 0, 0],
    ];
    kani::concrete_playback_run(concrete_vals, crate::c03::q::n2_u2p63::build_get_iter);
}

// failed check (?): 
#[test]
fn kani_concrete_playback_build_get_iter_11256701211908577510() {
    let concrete_vals: Vec<Vec<u8>> = vec![
        // 9223372036854775808ul
        vec![0, 0, 0, 0, 0, 0, 0, 128],
        // 9223372036854775808ul
        vec![0, 0, 0, 0, 0, 0, 0, 128],
        // 5ul
        vec![5, 0, 0, 0, 0, 0, 0, 0],
        // 1ul
        vec![1, 0, 0, 0, 0, 0, 0, 0],
        // 3ul
        vec![3, 0, 0, 0, 0, 0, 0, 0],
    ];
    kani::concrete_playback_run(concrete_vals, crate::c03::q::n2_u2p63::build_get_iter);
}

// failed check (?): 
#[test]
fn kani_concrete_playback_build_get_iter_16478333927454445310() {
    let concrete_vals: Vec<Vec<u8>> = vec![
        // 0ul
        vec![0, 0, 0, 0, 0, 0, 0, 0],
        // 9223372036854775808ul
        vec![0, 0, 0, 0, 0, 0, 0, 128],
        // 1ul
        vec![1, 0, 0, 0, 0, 0, 0, 0],
        // 3ul
        vec![3, 0, 0, 0, 0, 0, 0, 0],
        // 0ul
        vec![0, 0, 0, 0, 0, 0, 0, 0],
        // 0ul
        vec![0, 0, 0, 0, 0, 0, 0, 0],
    ];
    kani::concrete_playback_run(concrete_vals, crate::c03::q::n2_u2p63::build_get_iter);
}
