// verif-case: property=C05 flavour=da feature=c05 harness=c05::q::usize_::iter_from_prefix safety_only=0
// Solver counter-example(s) produced by Kani's concrete playback; replay with
//   ./check C05 --replay /verif/replay/cases/c05__q__usize___iter_from_prefix.rs

// failed check (assume): Rust intrinsic assumption failed
#[test]
fn kani_concrete_playback_iter_from_prefix_5483322165910328399() {
    let concrete_vals: Vec<Vec<u8>> = vec![
        // 6ul
        vec![6, 0, 0, 0, 0, 0, 0, 0],
        // 6ul
        vec![6, 0, 0, 0, 0, 0, 0, 0],
        // 6ul
        vec![6, 0, 0, 0, 0, 0, 0, 0],
        // 6ul
        vec![6, 0, 0, 0, 0, 0, 0, 0],
        // 32ul
        vec![32, 0, 0, 0, 0, 0, 0, 0],
        // 32ul
        vec![32, 0, 0, 0, 0, 0, 0, 0],
    ];
    kani::concrete_playback_run(concrete_vals, crate::c05::q::usize_::iter_from_prefix);
}
