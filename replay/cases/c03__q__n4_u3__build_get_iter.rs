// verif-case: property=C03 flavour=da feature=c03 harness=c03::q::n4_u3::build_get_iter safety_only=0
// Solver counter-example(s) produced by Kani's concrete playback; replay with
//   ./check C03 --replay /verif/replay/cases/c03__q__n4_u3__build_get_iter.rs

// failed check (?): 
#[test]
fn kani_concrete_playback_build_get_iter_14852342759441764797() {
    let concrete_vals: Vec<Vec<u8>> = vec![
        // 0ul
        vec![0, 0, 0, 0, 0, 0, 0, 0],
        // 0ul
        vec![0, 0, 0, 0, 0, 0, 0, 0],
        // 3ul
        vec![3, 0, 0, 0, 0, 0, 0, 0],
        // 3ul
        vec![3, 0, 0, 0, 0, 0, 0, 0],
        // 64ul
        vec![64, 0, 0, 0, 0, 0, 0, 0],
        // 4ul
        vec![4, 0, 0, 0, 0, 0, 0, 0],
    ];
    kani::concrete_playback_run(concrete_vals, crate::c03::q::n4_u3::build_get_iter);
}

// failed check (?): 
#[test]
fn kani_concrete_playback_build_get_iter_8199151694911113118() {
    let concrete_vals: Vec<Vec<u8>> = vec![
        // 3ul
        vec![3, 0, 0, 0, 0, 0, 0, 0],
        // 3ul
        vec![3, 0, 0, 0, 0, 0, 0, 0],
        // 3ul
        vec![3, 0, 0, 0, 0, 0, 0, 0],
        // 3ul
        vec![3, 0, 0, 0, 0, 0, 0, 0],
        // 1027ul
        vec![3, 4, 0, 0, 0, 0, 0, 0],
        // 3ul
        vec![3, 0, 0, 0, 0, 0, 0, 0],
        // 6ul
        vec![6, 0, 0, 0, 0, 0, 0, 0],
    ];
    kani::concrete_playback_run(concrete_vals, crate::c03::q::n4_u3::build_get_iter);
}

// failed check (?): 
#[test]
fn kani_concrete_playback_build_get_iter_4642115867894744269() {
    let concrete_vals: Vec<Vec<u8>> = vec![
        // 0ul
        vec![0, 0, 0, 0, 0, 0, 0, 0],
        // 0ul
        vec![0, 0, 0, 0, 0, 0, 0, 0],
        // 2ul
        vec![2, 0, 0, 0, 0, 0, 0, 0],
        // 3ul
        vec![3, 0, 0, 0, 0, 0, 0, 0],
        // 262145ul
        vec![1, 0, 4, 0, 0, 0, 0, 0],
        // 1ul
        vec![1, 0, 0, 0, 0, 0, 0, 0],
        // 1ul
        vec![1, 0, 0, 0, 0, 0, 0, 0],
    ];
    kani::concrete_playback_run(concrete_vals, crate::c03::q::n4_u3::build_get_iter);
}
