// verif-case: property=C16 flavour=da feature=c16 harness=e2::FuseLge3FullSigs::shift_1 safety_only=0
// SMT model of a violated obligation (edge(sig)[1] = local_edge(local_sig(sig))[1] + shard(sig) * num_vertices()); replayed against the real ShardEdge methods.
#[test]
fn kani_concrete_playback_c16_fuselge3fullsigs_shift_1() {
    let se = sux::func::shard_edge::FuseLge3FullSigs::verif_from_parts(31, 18, 4095);
    let sig = [0xd4745553fbfefbf7_u64, 0x30fe00000000_u64];
    crate::c16_native::check_edge(&se, sig);
}
