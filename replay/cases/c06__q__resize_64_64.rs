// verif-case: property=C06 flavour=da feature=c06 harness=c06::q::resize_64_64 safety_only=0
// Solver counter-example(s) produced by Kani's concrete playback; replay with
//   ./check C06 --replay /verif/replay/cases/c06__q__resize_64_64.rs

// failed check (assertion): assertion failed: v.pop() == Some(b)
#[test]
fn kani_concrete_playback_resize_64_64_3573990283735453359() {
    let concrete_vals: Vec<Vec<u8>> = vec![
        // 0ul
        vec![0, 0, 0, 0, 0, 0, 0, 0],
        // 2ul
        vec![2, 0, 0, 0, 0, 0, 0, 0],
        // 0ul
        vec![0, 0, 0, 0, 0, 0, 0, 0],
        // 0
        vec![0],
        // 9223372036854775808ul
        vec![0, 0, 0, 0, 0, 0, 0, 128],
    ];
    kani::concrete_playback_run(concrete_vals, crate::c06::q::resize_64_64);
}

// failed check (assertion): assertion failed: v.pop() == Some(b)
#[test]
fn kani_concrete_playback_resize_64_64_7694895204498648554() {
    let concrete_vals: Vec<Vec<u8>> = vec![
        // 0ul
        vec![0, 0, 0, 0, 0, 0, 0, 0],
        // 1ul
        vec![1, 0, 0, 0, 0, 0, 0, 0],
        // 0ul
        vec![0, 0, 0, 0, 0, 0, 0, 0],
        // 0
        vec![0],
        // 9223372036854775808ul
        vec![0, 0, 0, 0, 0, 0, 0, 128],
    ];
    kani::concrete_playback_run(concrete_vals, crate::c06::q::resize_64_64);
}
