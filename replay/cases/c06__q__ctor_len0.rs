// verif-case: property=C06 flavour=da feature=c06 harness=c06::q::ctor_len0 safety_only=0
// Solver counter-example(s) produced by Kani's concrete playback; replay with
//   ./check C06 --replay /verif/replay/cases/c06__q__ctor_len0.rs

// failed check (assume): Rust intrinsic assumption failed
#[test]
fn kani_concrete_playback_ctor_len0_513596492381630347() {
    let concrete_vals: Vec<Vec<u8>> = vec![
    ];
    kani::concrete_playback_run(concrete_vals, crate::c06::q::ctor_len0);
}
