// verif-case: property=C01 flavour=da feature=c01 harness=c01::q::rs3_structured_n33 safety_only=0
// Solver counter-example(s) produced by Kani's concrete playback; replay with
//   ./check C01 --replay /verif/replay/cases/c01__q__rs3_structured_n33.rs

// failed check (assertion): assertion failed: r.rank(p) == exp
#[test]
fn kani_concrete_playback_rs3_structured_n33_11157857613496765169() {
    let concrete_vals: Vec<Vec<u8>> = vec![
        // 1
        vec![1],
        // 4090494975ul
        vec![255, 255, 207, 243, 0, 0, 0, 0],
        // 9223644436565557251ul
        vec![3, 128, 255, 255, 190, 247, 0, 128],
        // 17006718088563916671ul
        vec![127, 255, 15, 0, 255, 255, 3, 236],
        // 4971701103570452786ul
        vec![50, 1, 188, 255, 207, 7, 255, 68],
        // 1537ul
        vec![1, 6, 0, 0, 0, 0, 0, 0],
    ];
    kani::concrete_playback_run(concrete_vals, crate::c01::q::rs3_structured_n33);
}
