// verif-case: property=C09 flavour=da feature=c09 harness=c09::q::lcp_kernel safety_only=0
// Solver counter-example(s) produced by Kani's concrete playback; replay with
//   ./check C09 --replay /verif/replay/cases/c09__q__lcp_kernel.rs

// failed check (assertion): assertion failed: ord == lex(&a[..la], &b[..lb])
#[test]
fn kani_concrete_playback_lcp_kernel_8199677907394954502() {
    let concrete_vals: Vec<Vec<u8>> = vec![
        // 1
        vec![1],
        // 1
        vec![1],
        // 1
        vec![1],
        // 1
        vec![1],
        // 1
        vec![1],
        // 1
        vec![1],
        // 1ul
        vec![1, 0, 0, 0, 0, 0, 0, 0],
        // 0ul
        vec![0, 0, 0, 0, 0, 0, 0, 0],
    ];
    kani::concrete_playback_run(concrete_vals, crate::c09::q::lcp_kernel);
}
