// verif-case: property=C14 flavour=da feature=c14 harness=c14::q::usize_copy5::copy_preserves safety_only=0
// Solver counter-example(s) produced by Kani's concrete playback; replay with
//   ./check C14 --replay /verif/replay/cases/c14__q__usize_copy5__copy_preserves.rs

// failed check (assertion): attempt to subtract with overflow
#[test]
fn kani_concrete_playback_copy_preserves_12654383031683905784() {
    let concrete_vals: Vec<Vec<u8>> = vec![
        // 8ul
        vec![8, 0, 0, 0, 0, 0, 0, 0],
        // 8ul
        vec![8, 0, 0, 0, 0, 0, 0, 0],
        // 8ul
        vec![8, 0, 0, 0, 0, 0, 0, 0],
        // 18446744073709551615ul
        vec![255, 255, 255, 255, 255, 255, 255, 255],
        // 18446744073709551615ul
        vec![255, 255, 255, 255, 255, 255, 255, 255],
        // 18446744073709551615ul
        vec![255, 255, 255, 255, 255, 255, 255, 255],
        // 8ul
        vec![8, 0, 0, 0, 0, 0, 0, 0],
        // 21ul
        vec![21, 0, 0, 0, 0, 0, 0, 0],
        // 4ul
        vec![4, 0, 0, 0, 0, 0, 0, 0],
        // 17ul
        vec![17, 0, 0, 0, 0, 0, 0, 0],
        // 1ul
        vec![1, 0, 0, 0, 0, 0, 0, 0],
    ];
    kani::concrete_playback_run(concrete_vals, crate::c14::q::usize_copy5::copy_preserves);
}

// failed check (assertion): assertion failed: wbit(& after, p) == wbit(& dst, p)
#[test]
fn kani_concrete_playback_copy_preserves_4955399068010484877() {
    let concrete_vals: Vec<Vec<u8>> = vec![
        // 38ul
        vec![38, 0, 0, 0, 0, 0, 0, 0],
        // 38ul
        vec![38, 0, 0, 0, 0, 0, 0, 0],
        // 1080863910568919078ul
        vec![38, 0, 0, 0, 0, 0, 0, 15],
        // 9223372036854775807ul
        vec![255, 255, 255, 255, 255, 255, 255, 127],
        // 9223372036854775807ul
        vec![255, 255, 255, 255, 255, 255, 255, 127],
        // 9223372036854775807ul
        vec![255, 255, 255, 255, 255, 255, 255, 127],
        // 38ul
        vec![38, 0, 0, 0, 0, 0, 0, 0],
        // 35ul
        vec![35, 0, 0, 0, 0, 0, 0, 0],
        // 28ul
        vec![28, 0, 0, 0, 0, 0, 0, 0],
        // 28ul
        vec![28, 0, 0, 0, 0, 0, 0, 0],
        // 11ul
        vec![11, 0, 0, 0, 0, 0, 0, 0],
        // 189ul
        vec![189, 0, 0, 0, 0, 0, 0, 0],
    ];
    kani::concrete_playback_run(concrete_vals, crate::c14::q::usize_copy5::copy_preserves);
}
