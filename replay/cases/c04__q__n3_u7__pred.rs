// verif-case: property=C04 flavour=da feature=c04 harness=c04::q::n3_u7::pred safety_only=0
// Solver counter-example(s) produced by Kani's concrete playback; replay with
//   ./check C04 --replay /verif/replay/cases/c04__q__n3_u7__pred.rs

// failed check (?): 
#[test]
fn kani_concrete_playback_pred_5073447627103863407() {
    let concrete_vals: Vec<Vec<u8>> = vec![
        // 5ul
        vec![5, 0, 0, 0, 0, 0, 0, 0],
        // 6ul
        vec![6, 0, 0, 0, 0, 0, 0, 0],
        // 7ul
        vec![7, 0, 0, 0, 0, 0, 0, 0],
        // 7ul
        vec![7, 0, 0, 0, 0, 0, 0, 0],
        // 1
        vec![1],
        // 2ul
        vec![2, 0, 0, 0, 0, 0, 0, 0],
        // 6ul
        vec![6, 0, 0, 0, 0, 0, 0, 0],
    ];
    kani::concrete_playback_run(concrete_vals, crate::c04::q::n3_u7::pred);
}

// failed check (?): 
#[test]
fn kani_concrete_playback_pred_2674637554291734463() {
    let concrete_vals: Vec<Vec<u8>> = vec![
        // 1ul
        vec![1, 0, 0, 0, 0, 0, 0, 0],
        // 7ul
        vec![7, 0, 0, 0, 0, 0, 0, 0],
        // 7ul
        vec![7, 0, 0, 0, 0, 0, 0, 0],
        // 2ul
        vec![2, 0, 0, 0, 0, 0, 0, 0],
        // 0
        vec![0],
        // 0ul
        vec![0, 0, 0, 0, 0, 0, 0, 0],
        // 2ul
        vec![2, 0, 0, 0, 0, 0, 0, 0],
    ];
    kani::concrete_playback_run(concrete_vals, crate::c04::q::n3_u7::pred);
}

// failed check (?): 
#[test]
fn kani_concrete_playback_pred_9531986021372296683() {
    let concrete_vals: Vec<Vec<u8>> = vec![
        // 6ul
        vec![6, 0, 0, 0, 0, 0, 0, 0],
        // 7ul
        vec![7, 0, 0, 0, 0, 0, 0, 0],
        // 7ul
        vec![7, 0, 0, 0, 0, 0, 0, 0],
        // 1ul
        vec![1, 0, 0, 0, 0, 0, 0, 0],
        // 1
        vec![1],
        // 3ul
        vec![3, 0, 0, 0, 0, 0, 0, 0],
    ];
    kani::concrete_playback_run(concrete_vals, crate::c04::q::n3_u7::pred);
}

// failed check (?): 
#[test]
fn kani_concrete_playback_pred_2346282666872293455() {
    let concrete_vals: Vec<Vec<u8>> = vec![
        // 1ul
        vec![1, 0, 0, 0, 0, 0, 0, 0],
        // 3ul
        vec![3, 0, 0, 0, 0, 0, 0, 0],
        // 5ul
        vec![5, 0, 0, 0, 0, 0, 0, 0],
        // 8ul
        vec![8, 0, 0, 0, 0, 0, 0, 0],
        // 0
        vec![0],
        // 0ul
        vec![0, 0, 0, 0, 0, 0, 0, 0],
        // 6ul
        vec![6, 0, 0, 0, 0, 0, 0, 0],
    ];
    kani::concrete_playback_run(concrete_vals, crate::c04::q::n3_u7::pred);
}
