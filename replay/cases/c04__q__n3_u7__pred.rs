// verif-case: property=C04 flavour=da feature=c04 harness=c04::q::n3_u7::pred safety_only=0
// Solver counter-example(s) produced by Kani's concrete playback; replay with
//   ./check C04 --replay /verif/replay/cases/c04__q__n3_u7__pred.rs

// failed check (?): 
#[test]
fn kani_concrete_playback_pred_16042813008493014246() {
    let concrete_vals: Vec<Vec<u8>> = vec![
        // 0ul
        vec![0, 0, 0, 0, 0, 0, 0, 0],
        // 1ul
        vec![1, 0, 0, 0, 0, 0, 0, 0],
        // 1ul
        vec![1, 0, 0, 0, 0, 0, 0, 0],
        // 2ul
        vec![2, 0, 0, 0, 0, 0, 0, 0],
        // 1
        vec![1],
        // 0ul
        vec![0, 0, 0, 0, 0, 0, 0, 0],
        // 4ul
        vec![4, 0, 0, 0, 0, 0, 0, 0],
    ];
    kani::concrete_playback_run(concrete_vals, crate::c04::q::n3_u7::pred);
}

// failed check (?): 
#[test]
fn kani_concrete_playback_pred_9250211525335244283() {
    let concrete_vals: Vec<Vec<u8>> = vec![
        // 5ul
        vec![5, 0, 0, 0, 0, 0, 0, 0],
        // 5ul
        vec![5, 0, 0, 0, 0, 0, 0, 0],
        // 5ul
        vec![5, 0, 0, 0, 0, 0, 0, 0],
        // 2ul
        vec![2, 0, 0, 0, 0, 0, 0, 0],
        // 0
        vec![0],
        // 2ul
        vec![2, 0, 0, 0, 0, 0, 0, 0],
    ];
    kani::concrete_playback_run(concrete_vals, crate::c04::q::n3_u7::pred);
}

// failed check (?): 
#[test]
fn kani_concrete_playback_pred_11947540777003018244() {
    let concrete_vals: Vec<Vec<u8>> = vec![
        // 0ul
        vec![0, 0, 0, 0, 0, 0, 0, 0],
        // 3ul
        vec![3, 0, 0, 0, 0, 0, 0, 0],
        // 5ul
        vec![5, 0, 0, 0, 0, 0, 0, 0],
        // 41939751388883451ul
        vec![251, 169, 128, 79, 251, 255, 148, 0],
        // 0
        vec![0],
        // 0ul
        vec![0, 0, 0, 0, 0, 0, 0, 0],
    ];
    kani::concrete_playback_run(concrete_vals, crate::c04::q::n3_u7::pred);
}
