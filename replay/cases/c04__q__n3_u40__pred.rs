// verif-case: property=C04 flavour=da feature=c04 harness=c04::q::n3_u40::pred safety_only=0
// Solver counter-example(s) produced by Kani's concrete playback; replay with
//   ./check C04 --replay /verif/replay/cases/c04__q__n3_u40__pred.rs

// failed check (?): 
#[test]
fn kani_concrete_playback_pred_7978656229940045853() {
    let concrete_vals: Vec<Vec<u8>> = vec![
        // 0ul
        vec![0, 0, 0, 0, 0, 0, 0, 0],
        // 16ul
        vec![16, 0, 0, 0, 0, 0, 0, 0],
        // 16ul
        vec![16, 0, 0, 0, 0, 0, 0, 0],
        // 26ul
        vec![26, 0, 0, 0, 0, 0, 0, 0],
        // 0
        vec![0],
        // 0ul
        vec![0, 0, 0, 0, 0, 0, 0, 0],
        // 6ul
        vec![6, 0, 0, 0, 0, 0, 0, 0],
    ];
    kani::concrete_playback_run(concrete_vals, crate::c04::q::n3_u40::pred);
}

// failed check (?): 
#[test]
fn kani_concrete_playback_pred_2009044840773594193() {
    let concrete_vals: Vec<Vec<u8>> = vec![
        // 40ul
        vec![40, 0, 0, 0, 0, 0, 0, 0],
        // 40ul
        vec![40, 0, 0, 0, 0, 0, 0, 0],
        // 40ul
        vec![40, 0, 0, 0, 0, 0, 0, 0],
        // 6ul
        vec![6, 0, 0, 0, 0, 0, 0, 0],
        // 0
        vec![0],
        // 5ul
        vec![5, 0, 0, 0, 0, 0, 0, 0],
    ];
    kani::concrete_playback_run(concrete_vals, crate::c04::q::n3_u40::pred);
}

// failed check (?): 
#[test]
fn kani_concrete_playback_pred_7736684575975885545() {
    let concrete_vals: Vec<Vec<u8>> = vec![
        // 40ul
        vec![40, 0, 0, 0, 0, 0, 0, 0],
        // 40ul
        vec![40, 0, 0, 0, 0, 0, 0, 0],
        // 40ul
        vec![40, 0, 0, 0, 0, 0, 0, 0],
        // 41ul
        vec![41, 0, 0, 0, 0, 0, 0, 0],
        // 1
        vec![1],
        // 5ul
        vec![5, 0, 0, 0, 0, 0, 0, 0],
        // 8ul
        vec![8, 0, 0, 0, 0, 0, 0, 0],
    ];
    kani::concrete_playback_run(concrete_vals, crate::c04::q::n3_u40::pred);
}

// failed check (?): 
#[test]
fn kani_concrete_playback_pred_6222841623314980937() {
    let concrete_vals: Vec<Vec<u8>> = vec![
        // 32ul
        vec![32, 0, 0, 0, 0, 0, 0, 0],
        // 32ul
        vec![32, 0, 0, 0, 0, 0, 0, 0],
        // 32ul
        vec![32, 0, 0, 0, 0, 0, 0, 0],
        // 17592186044226ul
        vec![66, 255, 255, 255, 255, 15, 0, 0],
        // 0
        vec![0],
        // 4ul
        vec![4, 0, 0, 0, 0, 0, 0, 0],
    ];
    kani::concrete_playback_run(concrete_vals, crate::c04::q::n3_u40::pred);
}
