// verif-case: property=C04 flavour=da feature=c04 harness=c04::q::n3_u40::pred safety_only=0
// Solver counter-example(s) produced by Kani's concrete playback; replay with
//   ./check C04 --replay /verif/replay/cases/c04__q__n3_u40__pred.rs

// failed check (?): 
#[test]
fn kani_concrete_playback_pred_11764783113951268292() {
    let concrete_vals: Vec<Vec<u8>> = vec![
        // 24ul
        vec![24, 0, 0, 0, 0, 0, 0, 0],
        // 33ul
        vec![33, 0, 0, 0, 0, 0, 0, 0],
        // 40ul
        vec![40, 0, 0, 0, 0, 0, 0, 0],
        // 40ul
        vec![40, 0, 0, 0, 0, 0, 0, 0],
        // 1
        vec![1],
        // 3ul
        vec![3, 0, 0, 0, 0, 0, 0, 0],
        // 8ul
        vec![8, 0, 0, 0, 0, 0, 0, 0],
    ];
    kani::concrete_playback_run(concrete_vals, crate::c04::q::n3_u40::pred);
}

// failed check (?): 
#[test]
fn kani_concrete_playback_pred_3731746911880069245() {
    let concrete_vals: Vec<Vec<u8>> = vec![
        // 1ul
        vec![1, 0, 0, 0, 0, 0, 0, 0],
        // 20ul
        vec![20, 0, 0, 0, 0, 0, 0, 0],
        // 32ul
        vec![32, 0, 0, 0, 0, 0, 0, 0],
        // 3ul
        vec![3, 0, 0, 0, 0, 0, 0, 0],
        // 1
        vec![1],
        // 0ul
        vec![0, 0, 0, 0, 0, 0, 0, 0],
        // 1ul
        vec![1, 0, 0, 0, 0, 0, 0, 0],
    ];
    kani::concrete_playback_run(concrete_vals, crate::c04::q::n3_u40::pred);
}

// failed check (?): 
#[test]
fn kani_concrete_playback_pred_12534257990189681957() {
    let concrete_vals: Vec<Vec<u8>> = vec![
        // 12ul
        vec![12, 0, 0, 0, 0, 0, 0, 0],
        // 40ul
        vec![40, 0, 0, 0, 0, 0, 0, 0],
        // 40ul
        vec![40, 0, 0, 0, 0, 0, 0, 0],
        // 0ul
        vec![0, 0, 0, 0, 0, 0, 0, 0],
        // 1
        vec![1],
        // 1ul
        vec![1, 0, 0, 0, 0, 0, 0, 0],
    ];
    kani::concrete_playback_run(concrete_vals, crate::c04::q::n3_u40::pred);
}

// failed check (?): 
#[test]
fn kani_concrete_playback_pred_7544644407531714336() {
    let concrete_vals: Vec<Vec<u8>> = vec![
        // 8ul
        vec![8, 0, 0, 0, 0, 0, 0, 0],
        // 27ul
        vec![27, 0, 0, 0, 0, 0, 0, 0],
        // 40ul
        vec![40, 0, 0, 0, 0, 0, 0, 0],
        // 281ul
        vec![25, 1, 0, 0, 0, 0, 0, 0],
        // 1
        vec![1],
        // 1ul
        vec![1, 0, 0, 0, 0, 0, 0, 0],
        // 8ul
        vec![8, 0, 0, 0, 0, 0, 0, 0],
    ];
    kani::concrete_playback_run(concrete_vals, crate::c04::q::n3_u40::pred);
}
