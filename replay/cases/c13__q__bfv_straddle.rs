// verif-case: property=C13 flavour=da feature=c13 harness=c13::q::bfv_straddle safety_only=0
// Solver counter-example(s) produced by Kani's concrete playback; replay with
//   ./check C13 --replay /verif/replay/cases/c13__q__bfv_straddle.rs

// failed check (assertion): "an atomic write changed bits of other elements"
#[test]
fn kani_concrete_playback_bfv_straddle_8736287052636716238() {
    let concrete_vals: Vec<Vec<u8>> = vec![
        // 22ul
        vec![22, 0, 0, 0, 0, 0, 0, 0],
        // 6805214206921539584ul
        vec![0, 0, 0, 0, 68, 250, 112, 94],
        // 18446744073709502461ul
        vec![253, 63, 255, 255, 255, 255, 255, 255],
        // 2ul
        vec![2, 0, 0, 0, 0, 0, 0, 0],
        // 1343228ul
        vec![252, 126, 20, 0, 0, 0, 0, 0],
        // 0
        vec![0],
        // 1
        vec![1],
        // 18446737768697561088ul
        vec![0, 0, 0, 0, 68, 250, 255, 255],
        // 18445055223836703951ul
        vec![207, 252, 63, 255, 255, 255, 249, 255],
        // 0
        vec![0],
        // 1
        vec![1],
        // 18446732271139422208ul
        vec![0, 0, 0, 0, 68, 245, 255, 255],
        // 18445055223836687567ul
        vec![207, 188, 63, 255, 255, 255, 249, 255],
    ];
    kani::concrete_playback_run(concrete_vals, crate::c13::q::bfv_straddle);
}
