// verif-case: property=C13 flavour=da feature=c13 harness=c13::q::bfv_adjacent safety_only=0
// Solver counter-example(s) produced by Kani's concrete playback; replay with
//   ./check C13 --replay /verif/replay/cases/c13__q__bfv_adjacent.rs

// failed check (assertion): "an atomic write changed bits of other elements"
#[test]
fn kani_concrete_playback_bfv_adjacent_11091136556778068657() {
    let concrete_vals: Vec<Vec<u8>> = vec![
        // 21ul
        vec![21, 0, 0, 0, 0, 0, 0, 0],
        // 4593601251173665628ul
        vec![92, 11, 255, 255, 255, 191, 191, 63],
        // 12132707210067182603ul
        vec![11, 4, 224, 251, 236, 8, 96, 168],
        // 3ul
        vec![3, 0, 0, 0, 0, 0, 0, 0],
        // 2095084ul
        vec![236, 247, 31, 0, 0, 0, 0, 0],
        // 0
        vec![0],
        // 0
        vec![0],
        // 0
        vec![0],
        // 1
        vec![1],
        // 8125232633715881467ul
        vec![251, 245, 11, 242, 7, 160, 194, 112],
        // 12132707210033627180ul
        vec![44, 0, 224, 249, 236, 8, 96, 168],
    ];
    kani::concrete_playback_run(concrete_vals, crate::c13::q::bfv_adjacent);
}
