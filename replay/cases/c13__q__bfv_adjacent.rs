// verif-case: property=C13 flavour=da feature=c13 harness=c13::q::bfv_adjacent safety_only=0
// Solver counter-example(s) produced by Kani's concrete playback; replay with
//   ./check C13 --replay /verif/replay/cases/c13__q__bfv_adjacent.rs

// failed check (assertion): "an atomic write changed bits of other elements"
#[test]
fn kani_concrete_playback_bfv_adjacent_16428400036899787357() {
    let concrete_vals: Vec<Vec<u8>> = vec![
        // 10ul
        vec![10, 0, 0, 0, 0, 0, 0, 0],
        // 18446744073709551615ul
        vec![255, 255, 255, 255, 255, 255, 255, 255],
        // 18446744073709551613ul
        vec![253, 255, 255, 255, 255, 255, 255, 255],
        // 9ul
        vec![9, 0, 0, 0, 0, 0, 0, 0],
        // 1023ul
        vec![255, 3, 0, 0, 0, 0, 0, 0],
        // 0
        vec![0],
        // 1
        vec![1],
        // 18446744073709551615ul
        vec![255, 255, 255, 255, 255, 255, 255, 255],
        // 18446744073709551615ul
        vec![255, 255, 255, 255, 255, 255, 255, 255],
    ];
    kani::concrete_playback_run(concrete_vals, crate::c13::q::bfv_adjacent);
}
