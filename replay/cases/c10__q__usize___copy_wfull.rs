// verif-case: property=C10 flavour=da feature=c10 harness=c10::q::usize_::copy_wfull safety_only=0
// Solver counter-example(s) produced by Kani's concrete playback; replay with
//   ./check C10 --replay /verif/replay/cases/c10__q__usize___copy_wfull.rs

// failed check (assertion): attempt to shift left with overflow
#[test]
fn kani_concrete_playback_copy_wfull_16281417513541302600() {
    let concrete_vals: Vec<Vec<u8>> = vec![
        // 18446744073709551615ul
        vec![255, 255, 255, 255, 255, 255, 255, 255],
        // 18446744073709551615ul
        vec![255, 255, 255, 255, 255, 255, 255, 255],
        // 18446744073709551615ul
        vec![255, 255, 255, 255, 255, 255, 255, 255],
        // 18446744073709551615ul
        vec![255, 255, 255, 255, 255, 255, 255, 255],
        // 18446744073709551615ul
        vec![255, 255, 255, 255, 255, 255, 255, 255],
        // 18446744073709551615ul
        vec![255, 255, 255, 255, 255, 255, 255, 255],
        // 3ul
        vec![3, 0, 0, 0, 0, 0, 0, 0],
        // 3ul
        vec![3, 0, 0, 0, 0, 0, 0, 0],
        // 2ul
        vec![2, 0, 0, 0, 0, 0, 0, 0],
        // 2ul
        vec![2, 0, 0, 0, 0, 0, 0, 0],
        // 9223372036854775808ul
        vec![0, 0, 0, 0, 0, 0, 0, 128],
    ];
    kani::concrete_playback_run(concrete_vals, crate::c10::q::usize_::copy_wfull);
}
