// verif-case: property=C19 flavour=da feature=c19 harness=c19::q::e2_same_single safety_only=0
// Solver counter-example(s) produced by Kani's concrete playback; replay with
//   ./check C19 --replay /verif/replay/cases/c19__q__e2_same_single.rs

// failed check (assertion): index out of bounds: the length is less than or equal to the given index
#[test]
fn kani_concrete_playback_e2_same_single_245346600938869686() {
    let concrete_vals: Vec<Vec<u8>> = vec![
        // 128
        vec![128],
        // 128
        vec![128],
        // 0
        vec![0],
    ];
    kani::concrete_playback_run(concrete_vals, crate::c19::q::e2_same_single);
}
