// verif-case: property=C03 flavour=da feature=c03 harness=c03::q::n2_u3::build_get_iter safety_only=0
// Solver counter-example(s) produced by Kani's concrete playback; replay with
//   ./check C03 --replay /verif/replay/cases/c03__q__n2_u3__build_get_iter.rs

// failed check (?): 
#[test]
fn kani_concrete_playback_build_get_iter_9117708320233036277() {
    let concrete_vals: Vec<Vec<u8>> = vec![
        // 3ul
        vec![3, 0, 0, 0, 0, 0, 0, 0],
        // 3ul
        vec![3, 0, 0, 0, 0, 0, 0, 0],
        // 18446744073709486083ul
        vec![3, 0, 255, 255, 255, 255, 255, 255],
        // 1ul
        vec![1, 0, 0, 0, 0, 0, 0, 0],
        // 4ul
        vec![4, 0, 0, 0, 0, 0, 0, 0],
    ];
    kani::concrete_playback_run(concrete_vals, crate::c03::q::n2_u3::build_get_iter);
}

// failed check (?): 
#[test]
fn kani_concrete_playback_build_get_iter_11708963539556563100() {
    let concrete_vals: Vec<Vec<u8>> = vec![
        // 0ul
        vec![0, 0, 0, 0, 0, 0, 0, 0],
        // 3ul
        vec![3, 0, 0, 0, 0, 0, 0, 0],
        // 18446744073709486083ul
        vec![3, 0, 255, 255, 255, 255, 255, 255],
        // 1ul
        vec![1, 0, 0, 0, 0, 0, 0, 0],
        // 4ul
        vec![4, 0, 0, 0, 0, 0, 0, 0],
    ];
    kani::concrete_playback_run(concrete_vals, crate::c03::q::n2_u3::build_get_iter);
}

// failed check (?): 
#[test]
fn kani_concrete_playback_build_get_iter_11956221688443854987() {
    let concrete_vals: Vec<Vec<u8>> = vec![
        // 0ul
        vec![0, 0, 0, 0, 0, 0, 0, 0],
        // 1ul
        vec![1, 0, 0, 0, 0, 0, 0, 0],
        // 1ul
        vec![1, 0, 0, 0, 0, 0, 0, 0],
        // 2ul
        vec![2, 0, 0, 0, 0, 0, 0, 0],
        // 2ul
        vec![2, 0, 0, 0, 0, 0, 0, 0],
    ];
    kani::concrete_playback_run(concrete_vals, crate::c03::q::n2_u3::build_get_iter);
}
