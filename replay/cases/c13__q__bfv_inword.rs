// verif-case: property=C13 flavour=da feature=c13 harness=c13::q::bfv_inword safety_only=0
// Solver counter-example(s) produced by Kani's concrete playback; replay with
//   ./check C13 --replay /verif/replay/cases/c13__q__bfv_inword.rs

// failed check (assertion): "an atomic write changed bits of other elements"
#[test]
fn kani_concrete_playback_bfv_inword_12912640059510049539() {
    let concrete_vals: Vec<Vec<u8>> = vec![
        // 5ul
        vec![5, 0, 0, 0, 0, 0, 0, 0],
        // 13835057080391628707ul
        vec![163, 247, 254, 3, 29, 255, 255, 191],
        // 9149616792720143621ul
        vec![5, 117, 8, 9, 255, 247, 249, 126],
        // 15ul
        vec![15, 0, 0, 0, 0, 0, 0, 0],
        // 14ul
        vec![14, 0, 0, 0, 0, 0, 0, 0],
        // 0
        vec![0],
        // 1
        vec![1],
        // 13835057084552378275ul
        vec![163, 247, 254, 251, 29, 255, 255, 191],
        // 9149616792720114693ul
        vec![5, 4, 8, 9, 255, 247, 249, 126],
        // 0
        vec![0],
    ];
    kani::concrete_playback_run(concrete_vals, crate::c13::q::bfv_inword);
}
