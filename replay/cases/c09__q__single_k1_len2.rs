// verif-case: property=C09 flavour=da feature=c09 harness=c09::q::single_k1_len2 safety_only=0
// Solver counter-example(s) produced by Kani's concrete playback; replay with
//   ./check C09 --replay /verif/replay/cases/c09__q__single_k1_len2.rs

// failed check (assertion): index out of bounds: the length is less than or equal to the given index
#[test]
fn kani_concrete_playback_single_k1_len2_10990458219394278076() {
    let concrete_vals: Vec<Vec<u8>> = vec![
        // 64
        vec![64],
        // 64
        vec![64],
        // 9223372036854775808ul
        vec![0, 0, 0, 0, 0, 0, 0, 128],
    ];
    kani::concrete_playback_run(concrete_vals, crate::c09::q::single_k1_len2);
}
