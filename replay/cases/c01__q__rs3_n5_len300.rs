// verif-case: property=C01 flavour=da feature=c01 harness=c01::q::rs3_n5_len300 safety_only=0
// Solver counter-example(s) produced by Kani's concrete playback; replay with
//   ./check C01 --replay /verif/replay/cases/c01__q__rs3_n5_len300.rs

// failed check (assertion): assertion failed: r.rank(p) == exp
#[test]
fn kani_concrete_playback_rs3_n5_len300_18215129981431152893() {
    let concrete_vals: Vec<Vec<u8>> = vec![
        // 18446744073709551615ul
        vec![255, 255, 255, 255, 255, 255, 255, 255],
        // 18446744073709551615ul
        vec![255, 255, 255, 255, 255, 255, 255, 255],
        // 18446744073709551615ul
        vec![255, 255, 255, 255, 255, 255, 255, 255],
        // 18446744073709551615ul
        vec![255, 255, 255, 255, 255, 255, 255, 255],
        // 18446744073709551615ul
        vec![255, 255, 255, 255, 255, 255, 255, 255],
        // 18446744073709551487ul
        vec![127, 255, 255, 255, 255, 255, 255, 255],
    ];
    kani::concrete_playback_run(concrete_vals, crate::c01::q::rs3_n5_len300);
}

// failed check (assertion): assertion failed: r.num_ones() == total
#[test]
fn kani_concrete_playback_rs3_n5_len300_5043617380414425536() {
    let concrete_vals: Vec<Vec<u8>> = vec![
        // 18446744073709551615ul
        vec![255, 255, 255, 255, 255, 255, 255, 255],
        // 18446744073709551615ul
        vec![255, 255, 255, 255, 255, 255, 255, 255],
        // 18446744073709551615ul
        vec![255, 255, 255, 255, 255, 255, 255, 255],
        // 18446744073709551615ul
        vec![255, 255, 255, 255, 255, 255, 255, 255],
        // 18446744073709551615ul
        vec![255, 255, 255, 255, 255, 255, 255, 255],
        // 259ul
        vec![3, 1, 0, 0, 0, 0, 0, 0],
    ];
    kani::concrete_playback_run(concrete_vals, crate::c01::q::rs3_n5_len300);
}
