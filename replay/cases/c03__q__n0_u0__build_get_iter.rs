// verif-case: property=C03 flavour=da feature=c03 harness=c03::q::n0_u0::build_get_iter safety_only=0
// Solver counter-example(s) produced by Kani's concrete playback; replay with
//   ./check C03 --replay /verif/replay/cases/c03__q__n0_u0__build_get_iter.rs

// failed check (?): 
#[test]
fn kani_concrete_playback_build_get_iter_10944896590527204035() {
    let concrete_vals: Vec<Vec<u8>> = vec![
        // 0ul
        vec![0, 0, 0, 0, 0, 0, 0, 0],
        // 0ul
        vec![0, 0, 0, 0, 0, 0, 0, 0],
    ];
    kani::concrete_playback_run(concrete_vals, crate::c03::q::n0_u0::build_get_iter);
}

// failed check (?): 
#[test]
fn kani_concrete_playback_build_get_iter_15485482020300711853() {
    let concrete_vals: Vec<Vec<u8>> = vec![
    ];
    kani::concrete_playback_run(concrete_vals, crate::c03::q::n0_u0::build_get_iter);
}
