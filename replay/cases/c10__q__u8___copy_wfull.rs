// verif-case: property=C10 flavour=da feature=c10 harness=c10::q::u8_::copy_wfull safety_only=0
// Solver counter-example(s) produced by Kani's concrete playback; replay with
//   ./check C10 --replay /verif/replay/cases/c10__q__u8___copy_wfull.rs

// failed check (assertion): attempt to shift left with overflow
#[test]
fn kani_concrete_playback_copy_wfull_13764748646530242376() {
    let concrete_vals: Vec<Vec<u8>> = vec![
        // 0
        vec![0],
        // 0
        vec![0],
        // 0
        vec![0],
        // 0
        vec![0],
        // 255
        vec![255],
        // 255
        vec![255],
        // 255
        vec![255],
        // 255
        vec![255],
        // 3ul
        vec![3, 0, 0, 0, 0, 0, 0, 0],
        // 3ul
        vec![3, 0, 0, 0, 0, 0, 0, 0],
        // 2ul
        vec![2, 0, 0, 0, 0, 0, 0, 0],
        // 0ul
        vec![0, 0, 0, 0, 0, 0, 0, 0],
        // 3ul
        vec![3, 0, 0, 0, 0, 0, 0, 0],
    ];
    kani::concrete_playback_run(concrete_vals, crate::c10::q::u8_::copy_wfull);
}
