// verif-case: property=C01 flavour=da feature=c01 harness=c01::q::rank9_n9_len513 safety_only=0
// Solver counter-example(s) produced by Kani's concrete playback; replay with
//   ./check C01 --replay /verif/replay/cases/c01__q__rank9_n9_len513.rs

// failed check (assertion): assertion failed: r.rank(p) == exp
#[test]
fn kani_concrete_playback_rank9_n9_len513_2005558268548479130() {
    let concrete_vals: Vec<Vec<u8>> = vec![
        // 18446481114588971071ul
        vec![63, 0, 7, 15, 215, 16, 255, 255],
        // 14999802483935481344ul
        vec![0, 14, 255, 3, 227, 0, 42, 208],
        // 387028159039616ul
        vec![128, 8, 240, 3, 0, 96, 1, 0],
        // 17153651088730030335ul
        vec![255, 0, 191, 0, 200, 2, 14, 238],
        // 354041950691136ul
        vec![64, 223, 180, 208, 255, 65, 1, 0],
        // 281470697664767ul
        vec![255, 240, 242, 0, 255, 255, 0, 0],
        // 4179341550506999567ul
        vec![15, 255, 255, 64, 255, 0, 0, 58],
        // 18410893957950075135ul
        vec![255, 240, 255, 120, 130, 162, 128, 255],
        // 18004928106594303ul
        vec![255, 255, 255, 255, 98, 247, 63, 0],
        // 9223372036854775808ul
        vec![0, 0, 0, 0, 0, 0, 0, 128],
    ];
    kani::concrete_playback_run(concrete_vals, crate::c01::q::rank9_n9_len513);
}

// failed check (assertion): assertion failed: r.num_ones() == total
#[test]
fn kani_concrete_playback_rank9_n9_len513_18203534939628711316() {
    let concrete_vals: Vec<Vec<u8>> = vec![
        // 18446744073709551615ul
        vec![255, 255, 255, 255, 255, 255, 255, 255],
        // 18446744073709551615ul
        vec![255, 255, 255, 255, 255, 255, 255, 255],
        // 18446744073709551615ul
        vec![255, 255, 255, 255, 255, 255, 255, 255],
        // 18446744073709551615ul
        vec![255, 255, 255, 255, 255, 255, 255, 255],
        // 18446744073709551615ul
        vec![255, 255, 255, 255, 255, 255, 255, 255],
        // 18446744073709551615ul
        vec![255, 255, 255, 255, 255, 255, 255, 255],
        // 18446744073709551615ul
        vec![255, 255, 255, 255, 255, 255, 255, 255],
        // 18446744073709551615ul
        vec![255, 255, 255, 255, 255, 255, 255, 255],
        // 18446744073709551615ul
        vec![255, 255, 255, 255, 255, 255, 255, 255],
        // 512ul
        vec![0, 2, 0, 0, 0, 0, 0, 0],
    ];
    kani::concrete_playback_run(concrete_vals, crate::c01::q::rank9_n9_len513);
}
