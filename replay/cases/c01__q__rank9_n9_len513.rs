// verif-case: property=C01 flavour=da feature=c01 harness=c01::q::rank9_n9_len513 safety_only=0
// Solver counter-example(s) produced by Kani's concrete playback; replay with
//   ./check C01 --replay /verif/replay/cases/c01__q__rank9_n9_len513.rs

// failed check (assertion): assertion failed: r.rank(p) == exp
#[test]
fn kani_concrete_playback_rank9_n9_len513_16751656209249948448() {
    let concrete_vals: Vec<Vec<u8>> = vec![
        // 9223372036854775807ul
        vec![255, 255, 255, 255, 255, 255, 255, 127],
        // 18446744073709551615ul
        vec![255, 255, 255, 255, 255, 255, 255, 255],
        // 17870089807357542399ul
        vec![255, 255, 223, 255, 255, 79, 255, 247],
        // 18446744073709551613ul
        vec![253, 255, 255, 255, 255, 255, 255, 255],
        // 17865552118576844548ul
        vec![4, 15, 0, 0, 255, 48, 239, 247],
        // 18446744073709549567ul
        vec![255, 247, 255, 255, 255, 255, 255, 255],
        // 18375020735501434879ul
        vec![255, 255, 255, 255, 0, 48, 1, 255],
        // 18970971209729ul
        vec![1, 0, 0, 6, 65, 17, 0, 0],
        // 1657610535912341504ul
        vec![0, 0, 0, 1, 0, 4, 1, 23],
        // 18446744073709551566ul
        vec![206, 255, 255, 255, 255, 255, 255, 255],
    ];
    kani::concrete_playback_run(concrete_vals, crate::c01::q::rank9_n9_len513);
}

// failed check (assertion): assertion failed: r.num_ones() == total
#[test]
fn kani_concrete_playback_rank9_n9_len513_18203534939628711316() {
    let concrete_vals: Vec<Vec<u8>> = vec![
        // 18446744073709551615ul
        vec![255, 255, 255, 255, 255, 255, 255, 255],
        // 18446744073709551615ul
        vec![255, 255, 255, 255, 255, 255, 255, 255],
        // 18446744073709551615ul
        vec![255, 255, 255, 255, 255, 255, 255, 255],
        // 18446744073709551615ul
        vec![255, 255, 255, 255, 255, 255, 255, 255],
        // 18446744073709551615ul
        vec![255, 255, 255, 255, 255, 255, 255, 255],
        // 18446744073709551615ul
        vec![255, 255, 255, 255, 255, 255, 255, 255],
        // 18446744073709551615ul
        vec![255, 255, 255, 255, 255, 255, 255, 255],
        // 18446744073709551615ul
        vec![255, 255, 255, 255, 255, 255, 255, 255],
        // 18446744073709551615ul
        vec![255, 255, 255, 255, 255, 255, 255, 255],
        // 512ul
        vec![0, 2, 0, 0, 0, 0, 0, 0],
    ];
    kani::concrete_playback_run(concrete_vals, crate::c01::q::rank9_n9_len513);
}
