// verif-case: property=C03 flavour=da feature=c03 harness=c03::q::n3_u7::build_get_iter safety_only=0
// Solver counter-example(s) produced by Kani's concrete playback; replay with
//   ./check C03 --replay /verif/replay/cases/c03__q__n3_u7__build_get_iter.rs

// failed check (?): 
#[test]
fn kani_concrete_playback_build_get_iter_5677000949007431126() {
    let concrete_vals: Vec<Vec<u8>> = vec![
        // 1ul
        vec![1, 0, 0, 0, 0, 0, 0, 0],
        // 1ul
        vec![1, 0, 0, 0, 0, 0, 0, 0],
        // 1ul
        vec![1, 0, 0, 0, 0, 0, 0, 0],
        // 6ul
        vec![6, 0, 0, 0, 0, 0, 0, 0],
        // 0ul
        vec![0, 0, 0, 0, 0, 0, 0, 0],
        // 0ul
        vec![0, 0, 0, 0, 0, 0, 0, 0],
    ];
    kani::concrete_playback_run(concrete_vals, crate::c03::q::n3_u7::build_get_iter);
}

// failed check (?): 
#[test]
fn kani_concrete_playback_build_get_iter_4264956632288186386() {
    let concrete_vals: Vec<Vec<u8>> = vec![
        // 0ul
        vec![0, 0, 0, 0, 0, 0, 0, 0],
        // 7ul
        vec![7, 0, 0, 0, 0, 0, 0, 0],
        // 7ul
        vec![7, 0, 0, 0, 0, 0, 0, 0],
        // 0ul
        vec![0, 0, 0, 0, 0, 0, 0, 0],
        // 0ul
        vec![0, 0, 0, 0, 0, 0, 0, 0],
        // 0ul
        vec![0, 0, 0, 0, 0, 0, 0, 0],
        // 0ul
        vec![0, 0, 0, 0, 0, 0, 0, 0],
    ];
    kani::concrete_playback_run(concrete_vals, crate::c03::q::n3_u7::build_get_iter);
}

// failed check (?): 
#[test]
fn kani_concrete_playback_build_get_iter_18079100820316125252() {
    let concrete_vals: Vec<Vec<u8>> = vec![
        // 0ul
        vec![0, 0, 0, 0, 0, 0, 0, 0],
        // 3ul
        vec![3, 0, 0, 0, 0, 0, 0, 0],
        // 6ul
        vec![6, 0, 0, 0, 0, 0, 0, 0],
        // 2ul
        vec![2, 0, 0, 0, 0, 0, 0, 0],
        // 5ul
        vec![5, 0, 0, 0, 0, 0, 0, 0],
        // 3ul
        vec![3, 0, 0, 0, 0, 0, 0, 0],
    ];
    kani::concrete_playback_run(concrete_vals, crate::c03::q::n3_u7::build_get_iter);
}
