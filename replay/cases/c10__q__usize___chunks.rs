// verif-case: property=C10 flavour=da feature=c10 harness=c10::q::usize_::chunks safety_only=0
// Solver counter-example(s) produced by Kani's concrete playback; replay with
//   ./check C10 --replay /verif/replay/cases/c10__q__usize___chunks.rs

/// Test generated for harness `c10::q::usize_::chunks` 
///
/// Check for `assertion`: "attempt to multiply with overflow"

#[test]
fn kani_concrete_playback_chunks_5652318165848096091() {
    let concrete_vals: Vec<Vec<u8>> = vec![
        // 18358622627406282746ul
        vec![250, 255, 255, 239, 2, 238, 198, 254],
        // 18358622627406282746ul
        vec![250, 255, 255, 239, 2, 238, 198, 254],
        // 18358622627406282746ul
        vec![250, 255, 255, 239, 2, 238, 198, 254],
        // 64ul
        vec![64, 0, 0, 0, 0, 0, 0, 0],
        // 4345955771201093632ul
        vec![0, 0, 0, 128, 191, 239, 79, 60],
    ];
    kani::concrete_playback_run(concrete_vals, crate::c10::q::usize_::chunks);
}
