// verif-case: property=C10 flavour=da feature=c10 harness=c10::q::usize_::chunks safety_only=0
// Solver counter-example(s) produced by Kani's concrete playback; replay with
//   ./check C10 --replay /verif/replay/cases/c10__q__usize___chunks.rs

// failed check (assertion): assertion failed: should_ok
#[test]
fn kani_concrete_playback_chunks_14158247330815965450() {
    let concrete_vals: Vec<Vec<u8>> = vec![
        // 2ul
        vec![2, 0, 0, 0, 0, 0, 0, 0],
        // 2ul
        vec![2, 0, 0, 0, 0, 0, 0, 0],
        // 3ul
        vec![3, 0, 0, 0, 0, 0, 0, 0],
        // 2ul
        vec![2, 0, 0, 0, 0, 0, 0, 0],
        // 16ul
        vec![16, 0, 0, 0, 0, 0, 0, 0],
        // 3ul
        vec![3, 0, 0, 0, 0, 0, 0, 0],
        // 2ul
        vec![2, 0, 0, 0, 0, 0, 0, 0],
        // 2ul
        vec![2, 0, 0, 0, 0, 0, 0, 0],
        // 130ul
        vec![130, 0, 0, 0, 0, 0, 0, 0],
    ];
    kani::concrete_playback_run(concrete_vals, crate::c10::q::usize_::chunks);
}
