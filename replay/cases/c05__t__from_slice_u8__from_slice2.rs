// verif-case: property=C05 flavour=da feature=c05_t harness=c05::t::from_slice_u8::from_slice2 safety_only=0
// Solver counter-example(s) produced by Kani's concrete playback; replay with
//   ./check C05 --replay /verif/replay/cases/c05__t__from_slice_u8__from_slice2.rs

// failed check (assertion): assertion failed: BitFieldSliceCore :: < W > :: bit_width(& v) == B - m.leading_zeros() as usize
#[test]
fn kani_concrete_playback_from_slice2_14380158755796276345() {
    let concrete_vals: Vec<Vec<u8>> = vec![
        // 255
        vec![255],
        // 255
        vec![255],
        // 255
        vec![255],
        // 255
        vec![255],
        // 0ul
        vec![0, 0, 0, 0, 0, 0, 0, 0],
        // 1ul
        vec![1, 0, 0, 0, 0, 0, 0, 0],
    ];
    kani::concrete_playback_run(concrete_vals, crate::c05::t::from_slice_u8::from_slice2);
}
