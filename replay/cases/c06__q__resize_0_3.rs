// verif-case: property=C06 flavour=da feature=c06 harness=c06::q::resize_0_3 safety_only=0
// Solver counter-example(s) produced by Kani's concrete playback; replay with
//   ./check C06 --replay /verif/replay/cases/c06__q__resize_0_3.rs

// failed check (assertion): assertion failed: v.get(j) == b
#[test]
fn kani_concrete_playback_resize_0_3_15080668480268995579() {
    let concrete_vals: Vec<Vec<u8>> = vec![
        // 18446744073709551615ul
        vec![255, 255, 255, 255, 255, 255, 255, 255],
        // 18446744073709551615ul
        vec![255, 255, 255, 255, 255, 255, 255, 255],
        // 18446744073709551615ul
        vec![255, 255, 255, 255, 255, 255, 255, 255],
        // 0
        vec![0],
        // 2ul
        vec![2, 0, 0, 0, 0, 0, 0, 0],
    ];
    kani::concrete_playback_run(concrete_vals, crate::c06::q::resize_0_3);
}

// failed check (assertion): assertion failed: v.pop() == Some(b)
#[test]
fn kani_concrete_playback_resize_0_3_13419313071888385205() {
    let concrete_vals: Vec<Vec<u8>> = vec![
        // 2ul
        vec![2, 0, 0, 0, 0, 0, 0, 0],
        // 0ul
        vec![0, 0, 0, 0, 0, 0, 0, 0],
        // 0ul
        vec![0, 0, 0, 0, 0, 0, 0, 0],
        // 0
        vec![0],
        // 9223372036854775808ul
        vec![0, 0, 0, 0, 0, 0, 0, 128],
    ];
    kani::concrete_playback_run(concrete_vals, crate::c06::q::resize_0_3);
}

// failed check (assertion): assertion failed: v.pop() == Some(b)
#[test]
fn kani_concrete_playback_resize_0_3_10388603962109049268() {
    let concrete_vals: Vec<Vec<u8>> = vec![
        // 1ul
        vec![1, 0, 0, 0, 0, 0, 0, 0],
        // 0ul
        vec![0, 0, 0, 0, 0, 0, 0, 0],
        // 0ul
        vec![0, 0, 0, 0, 0, 0, 0, 0],
        // 0
        vec![0],
        // 9223372036854775808ul
        vec![0, 0, 0, 0, 0, 0, 0, 128],
    ];
    kani::concrete_playback_run(concrete_vals, crate::c06::q::resize_0_3);
}
