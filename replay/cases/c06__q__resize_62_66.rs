// verif-case: property=C06 flavour=da feature=c06 harness=c06::q::resize_62_66 safety_only=0
// Solver counter-example(s) produced by Kani's concrete playback; replay with
//   ./check C06 --replay /verif/replay/cases/c06__q__resize_62_66.rs

// failed check (assertion): assertion failed: v.get(j) == b
#[test]
fn kani_concrete_playback_resize_62_66_3753970748308970390() {
    let concrete_vals: Vec<Vec<u8>> = vec![
        // 4608026847807995907ul
        vec![3, 0, 15, 243, 0, 0, 243, 63],
        // 4608026847807995907ul
        vec![3, 0, 15, 243, 0, 0, 243, 63],
        // 287382639751265532ul
        vec![252, 252, 252, 252, 252, 252, 252, 3],
        // 0
        vec![0],
        // 64ul
        vec![64, 0, 0, 0, 0, 0, 0, 0],
    ];
    kani::concrete_playback_run(concrete_vals, crate::c06::q::resize_62_66);
}
