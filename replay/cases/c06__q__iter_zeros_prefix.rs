// verif-case: property=C06 flavour=da feature=c06 harness=c06::q::iter_zeros_prefix safety_only=0
// Solver counter-example(s) produced by Kani's concrete playback; replay with
//   ./check C06 --replay /verif/replay/cases/c06__q__iter_zeros_prefix.rs

// failed check (assume): Rust intrinsic assumption failed
#[test]
fn kani_concrete_playback_iter_zeros_prefix_6914912699305552557() {
    let concrete_vals: Vec<Vec<u8>> = vec![
        // 18446744073709551615ul
        vec![255, 255, 255, 255, 255, 255, 255, 255],
        // 18446744073709551615ul
        vec![255, 255, 255, 255, 255, 255, 255, 255],
        // 18446744073709551615ul
        vec![255, 255, 255, 255, 255, 255, 255, 255],
        // 192ul
        vec![192, 0, 0, 0, 0, 0, 0, 0],
    ];
    kani::concrete_playback_run(concrete_vals, crate::c06::q::iter_zeros_prefix);
}
