// verif-case: property=C09 flavour=da feature=c09 harness=c09::q::empty_list safety_only=0
// Solver counter-example(s) produced by Kani's concrete playback; replay with
//   ./check C09 --replay /verif/replay/cases/c09__q__empty_list.rs

// failed check (assertion): index out of bounds: the length is less than or equal to the given index
#[test]
fn kani_concrete_playback_empty_list_5181512889736574291() {
    let concrete_vals: Vec<Vec<u8>> = vec![
        // 1ul
        vec![1, 0, 0, 0, 0, 0, 0, 0],
    ];
    kani::concrete_playback_run(concrete_vals, crate::c09::q::empty_list);
}
