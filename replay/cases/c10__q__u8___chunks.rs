// verif-case: property=C10 flavour=da feature=c10 harness=c10::q::u8_::chunks safety_only=0
// Solver counter-example(s) produced by Kani's concrete playback; replay with
//   ./check C10 --replay /verif/replay/cases/c10__q__u8___chunks.rs

/// Test generated for harness `c10::q::u8_::chunks` 
///
/// Check for `assertion`: "attempt to multiply with overflow"

#[test]
fn kani_concrete_playback_chunks_13825755168455989518() {
    let concrete_vals: Vec<Vec<u8>> = vec![
        // 254
        vec![254],
        // 254
        vec![254],
        // 254
        vec![254],
        // 254
        vec![254],
        // 3ul
        vec![3, 0, 0, 0, 0, 0, 0, 0],
        // 6148914691236517213ul
        vec![93, 85, 85, 85, 85, 85, 85, 85],
    ];
    kani::concrete_playback_run(concrete_vals, crate::c10::q::u8_::chunks);
}
