// verif-case: property=C10 flavour=da feature=c10 harness=c10::q::u8_::chunks safety_only=0
// Solver counter-example(s) produced by Kani's concrete playback; replay with
//   ./check C10 --replay /verif/replay/cases/c10__q__u8___chunks.rs

// failed check (assertion): assertion failed: should_ok
#[test]
fn kani_concrete_playback_chunks_12303451014497124172() {
    let concrete_vals: Vec<Vec<u8>> = vec![
        // 1
        vec![1],
        // 0
        vec![0],
        // 128
        vec![128],
        // 0
        vec![0],
        // 1ul
        vec![1, 0, 0, 0, 0, 0, 0, 0],
        // 11ul
        vec![11, 0, 0, 0, 0, 0, 0, 0],
        // 10ul
        vec![10, 0, 0, 0, 0, 0, 0, 0],
        // 0
        vec![0],
        // 1ul
        vec![1, 0, 0, 0, 0, 0, 0, 0],
        // 0ul
        vec![0, 0, 0, 0, 0, 0, 0, 0],
    ];
    kani::concrete_playback_run(concrete_vals, crate::c10::q::u8_::chunks);
}
