// verif-case: property=C04 flavour=da feature=c04 harness=c04::q::n2_u2p32::pred safety_only=0
// Solver counter-example(s) produced by Kani's concrete playback; replay with
//   ./check C04 --replay /verif/replay/cases/c04__q__n2_u2p32__pred.rs

// failed check (?): 
#[test]
fn kani_concrete_playback_pred_17068784526885732005() {
    let concrete_vals: Vec<Vec<u8>> = vec![
        // 4294967296ul
        vec![0, 0, 0, 0, 1, 0, 0, 0],
        // 4294967296ul
        vec![0, 0, 0, 0, 1, 0, 0, 0],
        // 4294967296ul
        vec![0, 0, 0, 0, 1, 0, 0, 0],
        // 0
        vec![0],
        // 2ul
        vec![2, 0, 0, 0, 0, 0, 0, 0],
        // 4ul
        vec![4, 0, 0, 0, 0, 0, 0, 0],
    ];
    kani::concrete_playback_run(concrete_vals, crate::c04::q::n2_u2p32::pred);
}

// failed check (?): 
#[test]
fn kani_concrete_playback_pred_6502893995032325563() {
    let concrete_vals: Vec<Vec<u8>> = vec![
        // 2147483651ul
        vec![3, 0, 0, 128, 0, 0, 0, 0],
        // 4294967296ul
        vec![0, 0, 0, 0, 1, 0, 0, 0],
        // 18ul
        vec![18, 0, 0, 0, 0, 0, 0, 0],
        // 1
        vec![1],
        // 1ul
        vec![1, 0, 0, 0, 0, 0, 0, 0],
    ];
    kani::concrete_playback_run(concrete_vals, crate::c04::q::n2_u2p32::pred);
}

// failed check (?): 
#[test]
fn kani_concrete_playback_pred_16766891010623557390() {
    let concrete_vals: Vec<Vec<u8>> = vec![
        // 4294967296ul
        vec![0, 0, 0, 0, 1, 0, 0, 0],
        // 4294967296ul
        vec![0, 0, 0, 0, 1, 0, 0, 0],
        // 4294967297ul
        vec![1, 0, 0, 0, 1, 0, 0, 0],
        // 0
        vec![0],
        // 2ul
        vec![2, 0, 0, 0, 0, 0, 0, 0],
        // 4ul
        vec![4, 0, 0, 0, 0, 0, 0, 0],
    ];
    kani::concrete_playback_run(concrete_vals, crate::c04::q::n2_u2p32::pred);
}

// failed check (?): 
#[test]
fn kani_concrete_playback_pred_10636766262340910515() {
    let concrete_vals: Vec<Vec<u8>> = vec![
        // 2147483648ul
        vec![0, 0, 0, 128, 0, 0, 0, 0],
        // 2147483654ul
        vec![6, 0, 0, 128, 0, 0, 0, 0],
        // 9223371592325660679ul
        vec![7, 0, 0, 128, 152, 255, 255, 127],
        // 1
        vec![1],
        // 1ul
        vec![1, 0, 0, 0, 0, 0, 0, 0],
    ];
    kani::concrete_playback_run(concrete_vals, crate::c04::q::n2_u2p32::pred);
}
