// verif-case: property=C04 flavour=da feature=c04 harness=c04::q::n2_u2p32::pred safety_only=0
// Solver counter-example(s) produced by Kani's concrete playback; replay with
//   ./check C04 --replay /verif/replay/cases/c04__q__n2_u2p32__pred.rs

// failed check (?): 
#[test]
fn kani_concrete_playback_pred_414970865448342626() {
    let concrete_vals: Vec<Vec<u8>> = vec![
        // 2147483648ul
        vec![0, 0, 0, 128, 0, 0, 0, 0],
        // 4294967296ul
        vec![0, 0, 0, 0, 1, 0, 0, 0],
        // 4294967296ul
        vec![0, 0, 0, 0, 1, 0, 0, 0],
        // 1
        vec![1],
        // 1ul
        vec![1, 0, 0, 0, 0, 0, 0, 0],
        // 4ul
        vec![4, 0, 0, 0, 0, 0, 0, 0],
    ];
    kani::concrete_playback_run(concrete_vals, crate::c04::q::n2_u2p32::pred);
}

// failed check (?): 
#[test]
fn kani_concrete_playback_pred_1253813356502299060() {
    let concrete_vals: Vec<Vec<u8>> = vec![
        // 1476395395ul
        vec![131, 1, 0, 88, 0, 0, 0, 0],
        // 2013266304ul
        vec![128, 1, 0, 120, 0, 0, 0, 0],
        // 2013266306ul
        vec![130, 1, 0, 120, 0, 0, 0, 0],
        // 1
        vec![1],
        // 0ul
        vec![0, 0, 0, 0, 0, 0, 0, 0],
        // 2ul
        vec![2, 0, 0, 0, 0, 0, 0, 0],
    ];
    kani::concrete_playback_run(concrete_vals, crate::c04::q::n2_u2p32::pred);
}

// failed check (?): 
#[test]
fn kani_concrete_playback_pred_13964927122750300904() {
    let concrete_vals: Vec<Vec<u8>> = vec![
        // 2550136703ul
        vec![127, 255, 255, 151, 0, 0, 0, 0],
        // 4294967296ul
        vec![0, 0, 0, 0, 1, 0, 0, 0],
        // 2550136703ul
        vec![127, 255, 255, 151, 0, 0, 0, 0],
        // 1
        vec![1],
        // 1ul
        vec![1, 0, 0, 0, 0, 0, 0, 0],
    ];
    kani::concrete_playback_run(concrete_vals, crate::c04::q::n2_u2p32::pred);
}

// failed check (?): 
#[test]
fn kani_concrete_playback_pred_12218048502363394598() {
    let concrete_vals: Vec<Vec<u8>> = vec![
        // 2147483646ul
        vec![254, 255, 255, 127, 0, 0, 0, 0],
        // 2147483647ul
        vec![255, 255, 255, 127, 0, 0, 0, 0],
        // 18446744071562067967ul
        vec![255, 255, 255, 127, 255, 255, 255, 255],
        // 0
        vec![0],
        // 0ul
        vec![0, 0, 0, 0, 0, 0, 0, 0],
        // 4ul
        vec![4, 0, 0, 0, 0, 0, 0, 0],
    ];
    kani::concrete_playback_run(concrete_vals, crate::c04::q::n2_u2p32::pred);
}
