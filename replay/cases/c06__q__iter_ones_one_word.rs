// verif-case: property=C06 flavour=da feature=c06 harness=c06::q::iter_ones_one_word safety_only=0
// Solver counter-example(s) produced by Kani's concrete playback; replay with
//   ./check C06 --replay /verif/replay/cases/c06__q__iter_ones_one_word.rs

// failed check (assume): Rust intrinsic assumption failed
#[test]
fn kani_concrete_playback_iter_ones_one_word_11931739211010689006() {
    let concrete_vals: Vec<Vec<u8>> = vec![
        // 0ul
        vec![0, 0, 0, 0, 0, 0, 0, 0],
        // 64ul
        vec![64, 0, 0, 0, 0, 0, 0, 0],
    ];
    kani::concrete_playback_run(concrete_vals, crate::c06::q::iter_ones_one_word);
}
