// verif-case: property=C02 flavour=da feature=c02 harness=c02::q::span_type_thresholds safety_only=0
// Solver counter-example(s) produced by Kani's concrete playback; replay with
//   ./check C02 --replay /verif/replay/cases/c02__q__span_type_thresholds.rs

// failed check (assertion): assertion failed: b == 32
#[test]
fn kani_concrete_playback_span_type_thresholds_17282053996831372115() {
    let concrete_vals: Vec<Vec<u8>> = vec![
        // 65537ul
        vec![1, 0, 1, 0, 0, 0, 0, 0],
    ];
    kani::concrete_playback_run(concrete_vals, crate::c02::q::span_type_thresholds);
}
