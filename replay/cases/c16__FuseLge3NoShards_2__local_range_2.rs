// verif-case: property=C16 flavour=da feature=c16 harness=e2::FuseLge3NoShards_2::local_range_2 safety_only=0
// SMT model of a violated obligation (local vertex 2 < num_vertices()); replayed against the real ShardEdge methods.
#[test]
fn kani_concrete_playback_c16_fuselge3noshards_2_local_range_2() {
    let se = sux::func::shard_edge::FuseLge3NoShards::verif_from_parts(18, 3464707812);
    let sig = [0xe9acbe7af0135c3f_u64, 0x0_u64];
    crate::c16_native::check_edge(&se, sig);
}
