// verif-case: property=C05 flavour=da feature=c05 harness=c05::q::from_slice_len34 safety_only=0
// Solver counter-example(s) produced by Kani's concrete playback; replay with
//   ./check C05 --replay /verif/replay/cases/c05__q__from_slice_len34.rs

// failed check (assertion): assertion failed: v.get(0) == x[0]
#[test]
fn kani_concrete_playback_from_slice_len34_10511659690624562801() {
    let concrete_vals: Vec<Vec<u8>> = vec![
        // 8
        vec![8],
        // 6
        vec![6],
    ];
    kani::concrete_playback_run(concrete_vals, crate::c05::q::from_slice_len34);
}

// failed check (assertion): assertion failed: v.get(1) == x[1]
#[test]
fn kani_concrete_playback_from_slice_len34_12386167008251816837() {
    let concrete_vals: Vec<Vec<u8>> = vec![
        // 4
        vec![4],
        // 8
        vec![8],
    ];
    kani::concrete_playback_run(concrete_vals, crate::c05::q::from_slice_len34);
}
