// verif-case: property=C04 flavour=da feature=c04 harness=c04::q::n2_u2p63::pred safety_only=0
// Solver counter-example(s) produced by Kani's concrete playback; replay with
//   ./check C04 --replay /verif/replay/cases/c04__q__n2_u2p63__pred.rs

// failed check (?): 
#[test]
fn kani_concrete_playback_pred_1195135605821165807() {
    let concrete_vals: Vec<Vec<u8>> = vec![
        // 0ul
        vec![0, 0, 0, 0, 0, 0, 0, 0],
        // 9223372036854775808ul
        vec![0, 0, 0, 0, 0, 0, 0, 128],
        // 9223372036854775808ul
        vec![0, 0, 0, 0, 0, 0, 0, 128],
        // 1
        vec![1],
        // 0ul
        vec![0, 0, 0, 0, 0, 0, 0, 0],
        // 4ul
        vec![4, 0, 0, 0, 0, 0, 0, 0],
    ];
    kani::concrete_playback_run(concrete_vals, crate::c04::q::n2_u2p63::pred);
}

// failed check (?): 
#[test]
fn kani_concrete_playback_pred_12118164697878445900() {
    let concrete_vals: Vec<Vec<u8>> = vec![
        // 32ul
        vec![32, 0, 0, 0, 0, 0, 0, 0],
        // 9223372036854775808ul
        vec![0, 0, 0, 0, 0, 0, 0, 128],
        // 9223372036854775809ul
        vec![1, 0, 0, 0, 0, 0, 0, 128],
        // 1
        vec![1],
        // 0ul
        vec![0, 0, 0, 0, 0, 0, 0, 0],
        // 4ul
        vec![4, 0, 0, 0, 0, 0, 0, 0],
    ];
    kani::concrete_playback_run(concrete_vals, crate::c04::q::n2_u2p63::pred);
}

// failed check (?): 
#[test]
fn kani_concrete_playback_pred_7316307893115319372() {
    let concrete_vals: Vec<Vec<u8>> = vec![
        // 9223372036854775808ul
        vec![0, 0, 0, 0, 0, 0, 0, 128],
        // 9223372036854775808ul
        vec![0, 0, 0, 0, 0, 0, 0, 128],
        // 0ul
        vec![0, 0, 0, 0, 0, 0, 0, 0],
        // 0
        vec![0],
        // 2ul
        vec![2, 0, 0, 0, 0, 0, 0, 0],
    ];
    kani::concrete_playback_run(concrete_vals, crate::c04::q::n2_u2p63::pred);
}
