// verif-case: property=C04 flavour=da feature=c04 harness=c04::q::n2_u2p63::pred safety_only=0
// Solver counter-example(s) produced by Kani's concrete playback; replay with
//   ./check C04 --replay /verif/replay/cases/c04__q__n2_u2p63__pred.rs

// failed check (?): 
#[test]
fn kani_concrete_playback_pred_13971180449818925266() {
    let concrete_vals: Vec<Vec<u8>> = vec![
        // 9080136379161154567ul
        vec![7, 148, 0, 160, 237, 31, 3, 126],
        // 9161447541799517695ul
        vec![255, 253, 85, 245, 255, 255, 35, 127],
        // 9160954881312329749ul
        vec![21, 144, 0, 128, 237, 63, 34, 127],
        // 1
        vec![1],
        // 1ul
        vec![1, 0, 0, 0, 0, 0, 0, 0],
        // 3ul
        vec![3, 0, 0, 0, 0, 0, 0, 0],
    ];
    kani::concrete_playback_run(concrete_vals, crate::c04::q::n2_u2p63::pred);
}

// failed check (?): 
#[test]
fn kani_concrete_playback_pred_16477672854612268832() {
    let concrete_vals: Vec<Vec<u8>> = vec![
        // 6917529027641081872ul
        vec![16, 0, 0, 0, 0, 0, 0, 96],
        // 9223372036854775808ul
        vec![0, 0, 0, 0, 0, 0, 0, 128],
        // 4611686018427387905ul
        vec![1, 0, 0, 0, 0, 0, 0, 64],
        // 0
        vec![0],
        // 1ul
        vec![1, 0, 0, 0, 0, 0, 0, 0],
    ];
    kani::concrete_playback_run(concrete_vals, crate::c04::q::n2_u2p63::pred);
}

// failed check (?): 
#[test]
fn kani_concrete_playback_pred_4063313081621584745() {
    let concrete_vals: Vec<Vec<u8>> = vec![
        // 9223372036854775808ul
        vec![0, 0, 0, 0, 0, 0, 0, 128],
        // 9223372036854775808ul
        vec![0, 0, 0, 0, 0, 0, 0, 128],
        // 9223372036854776321ul
        vec![1, 2, 0, 0, 0, 0, 0, 128],
        // 0
        vec![0],
        // 2ul
        vec![2, 0, 0, 0, 0, 0, 0, 0],
        // 4ul
        vec![4, 0, 0, 0, 0, 0, 0, 0],
    ];
    kani::concrete_playback_run(concrete_vals, crate::c04::q::n2_u2p63::pred);
}

// failed check (?): 
#[test]
fn kani_concrete_playback_pred_14531709990743976570() {
    let concrete_vals: Vec<Vec<u8>> = vec![
        // 9223372036854775808ul
        vec![0, 0, 0, 0, 0, 0, 0, 128],
        // 9223372036854775808ul
        vec![0, 0, 0, 0, 0, 0, 0, 128],
        // 13835198790086165378ul
        vec![130, 3, 0, 96, 255, 127, 0, 192],
        // 0
        vec![0],
        // 2ul
        vec![2, 0, 0, 0, 0, 0, 0, 0],
    ];
    kani::concrete_playback_run(concrete_vals, crate::c04::q::n2_u2p63::pred);
}
