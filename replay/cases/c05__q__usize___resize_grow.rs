// verif-case: property=C05 flavour=da feature=c05 harness=c05::q::usize_::resize_grow safety_only=0
// Solver counter-example(s) produced by Kani's concrete playback; replay with
//   ./check C05 --replay /verif/replay/cases/c05__q__usize___resize_grow.rs

// failed check (assertion): assertion failed: v.get(j) == x
#[test]
fn kani_concrete_playback_resize_grow_10746897172379364573() {
    let concrete_vals: Vec<Vec<u8>> = vec![
        // 2305843009213693952ul
        vec![0, 0, 0, 0, 0, 0, 0, 32],
        // 18446744073709551615ul
        vec![255, 255, 255, 255, 255, 255, 255, 255],
        // 2305843009213693952ul
        vec![0, 0, 0, 0, 0, 0, 0, 32],
        // 0ul
        vec![0, 0, 0, 0, 0, 0, 0, 0],
        // 3ul
        vec![3, 0, 0, 0, 0, 0, 0, 0],
    ];
    kani::concrete_playback_run(concrete_vals, crate::c05::q::usize_::resize_grow);
}
