// verif-case: property=C03 flavour=da feature=c03 harness=c03::q::extend_n2_u2p32::reject_extend_out_of_order safety_only=0
// Solver counter-example(s) produced by Kani's concrete playback; replay with
//   ./check C03 --replay /verif/replay/cases/c03__q__extend_n2_u2p32__reject_extend_out_of_order.rs

// failed check (cover): returned normally
#[test]
fn kani_concrete_playback_reject_extend_out_of_order_13582431063848799769() {
    let concrete_vals: Vec<Vec<u8>> = vec![
        // 1ul
        vec![1, 0, 0, 0, 0, 0, 0, 0],
        // 4294967296ul
        vec![0, 0, 0, 0, 1, 0, 0, 0],
        // 1
        vec![1],
        // 0ul
        vec![0, 0, 0, 0, 0, 0, 0, 0],
    ];
    let r = std::panic::catch_unwind(std::panic::AssertUnwindSafe(|| kani::concrete_playback_run(concrete_vals, crate::c03::q::extend_n2_u2p32::reject_extend_out_of_order)));
    assert!(r.is_err(), "the call returned normally on input that must be rejected");
}
