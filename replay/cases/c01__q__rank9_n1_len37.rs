// verif-case: property=C01 flavour=da feature=c01 harness=c01::q::rank9_n1_len37 safety_only=0
// Solver counter-example(s) produced by Kani's concrete playback; replay with
//   ./check C01 --replay /verif/replay/cases/c01__q__rank9_n1_len37.rs

// failed check (assertion): assertion failed: r.rank(p) == exp
#[test]
fn kani_concrete_playback_rank9_n1_len37_1039687040980151639() {
    let concrete_vals: Vec<Vec<u8>> = vec![
        // 183794441420ul
        vec![204, 156, 0, 203, 42, 0, 0, 0],
        // 139ul
        vec![139, 0, 0, 0, 0, 0, 0, 0],
    ];
    kani::concrete_playback_run(concrete_vals, crate::c01::q::rank9_n1_len37);
}

// failed check (assertion): assertion failed: r.num_ones() == total
#[test]
fn kani_concrete_playback_rank9_n1_len37_11113640604241794042() {
    let concrete_vals: Vec<Vec<u8>> = vec![
        // 18446744073709551615ul
        vec![255, 255, 255, 255, 255, 255, 255, 255],
        // 31ul
        vec![31, 0, 0, 0, 0, 0, 0, 0],
    ];
    kani::concrete_playback_run(concrete_vals, crate::c01::q::rank9_n1_len37);
}
