// verif-case: property=C01 flavour=da feature=c01 harness=c01::q::rank9_n1_len37 safety_only=0
// Solver counter-example(s) produced by Kani's concrete playback; replay with
//   ./check C01 --replay /verif/replay/cases/c01__q__rank9_n1_len37.rs

// failed check (assertion): assertion failed: r.rank(p) == exp
#[test]
fn kani_concrete_playback_rank9_n1_len37_4963122954515816408() {
    let concrete_vals: Vec<Vec<u8>> = vec![
        // 1152640128351469547ul
        vec![235, 255, 63, 252, 22, 0, 255, 15],
        // 518ul
        vec![6, 2, 0, 0, 0, 0, 0, 0],
    ];
    kani::concrete_playback_run(concrete_vals, crate::c01::q::rank9_n1_len37);
}

// failed check (assertion): assertion failed: r.num_ones() == total
#[test]
fn kani_concrete_playback_rank9_n1_len37_11113640604241794042() {
    let concrete_vals: Vec<Vec<u8>> = vec![
        // 18446744073709551615ul
        vec![255, 255, 255, 255, 255, 255, 255, 255],
        // 31ul
        vec![31, 0, 0, 0, 0, 0, 0, 0],
    ];
    kani::concrete_playback_run(concrete_vals, crate::c01::q::rank9_n1_len37);
}
