#[test]
fn kani_concrete_playback_copy_u8_6165115791808110930() {
    let concrete_vals: Vec<Vec<u8>> = vec![
        vec![77], vec![77], vec![145], vec![77], vec![209], vec![1], vec![209], vec![209],
        vec![3, 0, 0, 0, 0, 0, 0, 0], vec![0, 0, 0, 0, 0, 0, 0, 0], vec![1, 0, 0, 0, 0, 0, 0, 0],
        vec![9, 0, 0, 0, 0, 0, 0, 0], vec![8, 0, 0, 0, 0, 0, 0, 0],
    ];
    kani::concrete_playback_run(concrete_vals, crate::c10::q::copy_u8);
}
