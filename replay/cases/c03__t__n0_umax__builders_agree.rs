// verif-case: property=C03 flavour=da feature=c03_t harness=c03::t::n0_umax::builders_agree safety_only=0
// Solver counter-example(s) produced by Kani's concrete playback; replay with
//   ./check C03 --replay /verif/replay/cases/c03__t__n0_umax__builders_agree.rs

// failed check (assertion): attempt to add with overflow
#[test]
fn kani_concrete_playback_builders_agree_5038334248986813636() {
    let concrete_vals: Vec<Vec<u8>> = vec![
        // 0ul
        vec![0, 0, 0, 0, 0, 0, 0, 0],
    ];
    kani::concrete_playback_run(concrete_vals, crate::c03::t::n0_umax::builders_agree);
}
