// verif-case: property=C05 flavour=da feature=c05 harness=c05::q::u8_::resize_step safety_only=0
// Solver counter-example(s) produced by Kani's concrete playback; replay with
//   ./check C05 --replay /verif/replay/cases/c05__q__u8___resize_step.rs

// failed check (assertion): assertion failed: v.get(j) == x
#[test]
fn kani_concrete_playback_resize_step_1471413395992988985() {
    let concrete_vals: Vec<Vec<u8>> = vec![
        // 43
        vec![43],
        // 144
        vec![144],
        // 40
        vec![40],
        // 144
        vec![144],
        // 2ul
        vec![2, 0, 0, 0, 0, 0, 0, 0],
        // 0ul
        vec![0, 0, 0, 0, 0, 0, 0, 0],
        // 0
        vec![0],
        // 2ul
        vec![2, 0, 0, 0, 0, 0, 0, 0],
        // 0ul
        vec![0, 0, 0, 0, 0, 0, 0, 0],
    ];
    kani::concrete_playback_run(concrete_vals, crate::c05::q::u8_::resize_step);
}
