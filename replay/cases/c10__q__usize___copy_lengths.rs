// verif-case: property=C10 flavour=da feature=c10 harness=c10::q::usize_::copy_lengths safety_only=0
// Solver counter-example(s) produced by Kani's concrete playback; replay with
//   ./check C10 --replay /verif/replay/cases/c10__q__usize___copy_lengths.rs

/// Test generated for harness `c10::q::usize_::copy_lengths` 
///
/// Check for `assertion`: "assertion failed: d.get(q) == ref_get_usize (& src, w, from + q - to)"

#[test]
fn kani_concrete_playback_copy_lengths_16520782920138706284() {
    let concrete_vals: Vec<Vec<u8>> = vec![
        // 0ul
        vec![0, 0, 0, 0, 0, 0, 0, 0],
        // 3ul
        vec![3, 0, 0, 0, 0, 0, 0, 0],
        // 3ul
        vec![3, 0, 0, 0, 0, 0, 0, 0],
        // 3ul
        vec![3, 0, 0, 0, 0, 0, 0, 0],
        // 65ul
        vec![65, 0, 0, 0, 0, 0, 0, 0],
        // 1ul
        vec![1, 0, 0, 0, 0, 0, 0, 0],
        // 1ul
        vec![1, 0, 0, 0, 0, 0, 0, 0],
        // 127ul
        vec![127, 0, 0, 0, 0, 0, 0, 0],
        // 192ul
        vec![192, 0, 0, 0, 0, 0, 0, 0],
        // 15ul
        vec![15, 0, 0, 0, 0, 0, 0, 0],
        // 96ul
        vec![96, 0, 0, 0, 0, 0, 0, 0],
        // 97ul
        vec![97, 0, 0, 0, 0, 0, 0, 0],
        // 128ul
        vec![128, 0, 0, 0, 0, 0, 0, 0],
    ];
    kani::concrete_playback_run(concrete_vals, crate::c10::q::usize_::copy_lengths);
}
