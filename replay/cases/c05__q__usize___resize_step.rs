// verif-case: property=C05 flavour=da feature=c05 harness=c05::q::usize_::resize_step safety_only=0
// Solver counter-example(s) produced by Kani's concrete playback; replay with
//   ./check C05 --replay /verif/replay/cases/c05__q__usize___resize_step.rs

// failed check (assertion): assertion failed: v.get(j) == x
#[test]
fn kani_concrete_playback_resize_step_9053523471011214861() {
    let concrete_vals: Vec<Vec<u8>> = vec![
        // 4611686018427387904ul
        vec![0, 0, 0, 0, 0, 0, 0, 64],
        // 4611686018427387904ul
        vec![0, 0, 0, 0, 0, 0, 0, 64],
        // 4611686018427387904ul
        vec![0, 0, 0, 0, 0, 0, 0, 64],
        // 0ul
        vec![0, 0, 0, 0, 0, 0, 0, 0],
        // 2ul
        vec![2, 0, 0, 0, 0, 0, 0, 0],
    ];
    kani::concrete_playback_run(concrete_vals, crate::c05::q::usize_::resize_step);
}
