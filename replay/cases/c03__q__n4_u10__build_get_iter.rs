// verif-case: property=C03 flavour=da feature=c03 harness=c03::q::n4_u10::build_get_iter safety_only=0
// Solver counter-example(s) produced by Kani's concrete playback; replay with
//   ./check C03 --replay /verif/replay/cases/c03__q__n4_u10__build_get_iter.rs

// failed check (?): 
#[test]
fn kani_concrete_playback_build_get_iter_14181620958867264731() {
    let concrete_vals: Vec<Vec<u8>> = vec![
        // 8ul
        vec![8, 0, 0, 0, 0, 0, 0, 0],
        // 8ul
        vec![8, 0, 0, 0, 0, 0, 0, 0],
        // 8ul
        vec![8, 0, 0, 0, 0, 0, 0, 0],
        // 8ul
        vec![8, 0, 0, 0, 0, 0, 0, 0],
        // 2251799813685248ul
        vec![0, 0, 0, 0, 0, 0, 8, 0],
        // 2ul
        vec![2, 0, 0, 0, 0, 0, 0, 0],
        // 6ul
        vec![6, 0, 0, 0, 0, 0, 0, 0],
    ];
    kani::concrete_playback_run(concrete_vals, crate::c03::q::n4_u10::build_get_iter);
}

// failed check (?): 
#[test]
fn kani_concrete_playback_build_get_iter_1946817202580864410() {
    let concrete_vals: Vec<Vec<u8>> = vec![
        // 0ul
        vec![0, 0, 0, 0, 0, 0, 0, 0],
        // 4ul
        vec![4, 0, 0, 0, 0, 0, 0, 0],
        // 8ul
        vec![8, 0, 0, 0, 0, 0, 0, 0],
        // 10ul
        vec![10, 0, 0, 0, 0, 0, 0, 0],
        // 1ul
        vec![1, 0, 0, 0, 0, 0, 0, 0],
        // 3ul
        vec![3, 0, 0, 0, 0, 0, 0, 0],
        // 1ul
        vec![1, 0, 0, 0, 0, 0, 0, 0],
        // 3ul
        vec![3, 0, 0, 0, 0, 0, 0, 0],
    ];
    kani::concrete_playback_run(concrete_vals, crate::c03::q::n4_u10::build_get_iter);
}

// failed check (?): 
#[test]
fn kani_concrete_playback_build_get_iter_5518115210407301325() {
    let concrete_vals: Vec<Vec<u8>> = vec![
        // 2ul
        vec![2, 0, 0, 0, 0, 0, 0, 0],
        // 10ul
        vec![10, 0, 0, 0, 0, 0, 0, 0],
        // 10ul
        vec![10, 0, 0, 0, 0, 0, 0, 0],
        // 10ul
        vec![10, 0, 0, 0, 0, 0, 0, 0],
        // 3ul
        vec![3, 0, 0, 0, 0, 0, 0, 0],
        // 8ul
        vec![8, 0, 0, 0, 0, 0, 0, 0],
        // 4ul
        vec![4, 0, 0, 0, 0, 0, 0, 0],
    ];
    kani::concrete_playback_run(concrete_vals, crate::c03::q::n4_u10::build_get_iter);
}
