// verif-case: property=C14 flavour=da feature=c14 harness=c14::q::bitvec_ones_zeros_ignore_garbage safety_only=0
// Solver counter-example(s) produced by Kani's concrete playback; replay with
//   ./check C14 --replay /verif/replay/cases/c14__q__bitvec_ones_zeros_ignore_garbage.rs

// failed check (assertion): assertion failed: oa.next() == ob.next()
#[test]
fn kani_concrete_playback_bitvec_ones_zeros_ignore_garbage_16119879258939833272() {
    let concrete_vals: Vec<Vec<u8>> = vec![
        // 0ul
        vec![0, 0, 0, 0, 0, 0, 0, 0],
        // 0ul
        vec![0, 0, 0, 0, 0, 0, 0, 0],
        // 4ul
        vec![4, 0, 0, 0, 0, 0, 0, 0],
        // 64ul
        vec![64, 0, 0, 0, 0, 0, 0, 0],
    ];
    kani::concrete_playback_run(concrete_vals, crate::c14::q::bitvec_ones_zeros_ignore_garbage);
}

// failed check (assertion): assertion failed: oa.next() == ob.next()
#[test]
fn kani_concrete_playback_bitvec_ones_zeros_ignore_garbage_3874923939381231772() {
    let concrete_vals: Vec<Vec<u8>> = vec![
        // 0ul
        vec![0, 0, 0, 0, 0, 0, 0, 0],
        // 288230376151711744ul
        vec![0, 0, 0, 0, 0, 0, 0, 4],
        // 2ul
        vec![2, 0, 0, 0, 0, 0, 0, 0],
        // 123ul
        vec![123, 0, 0, 0, 0, 0, 0, 0],
    ];
    kani::concrete_playback_run(concrete_vals, crate::c14::q::bitvec_ones_zeros_ignore_garbage);
}
