// verif-case: property=C04 flavour=da feature=c04 harness=c04::q::n2_u3::pred safety_only=0
// Solver counter-example(s) produced by Kani's concrete playback; replay with
//   ./check C04 --replay /verif/replay/cases/c04__q__n2_u3__pred.rs

// failed check (?): 
#[test]
fn kani_concrete_playback_pred_17120656723970353417() {
    let concrete_vals: Vec<Vec<u8>> = vec![
        // 1ul
        vec![1, 0, 0, 0, 0, 0, 0, 0],
        // 3ul
        vec![3, 0, 0, 0, 0, 0, 0, 0],
        // 3ul
        vec![3, 0, 0, 0, 0, 0, 0, 0],
        // 1
        vec![1],
        // 1ul
        vec![1, 0, 0, 0, 0, 0, 0, 0],
        // 5ul
        vec![5, 0, 0, 0, 0, 0, 0, 0],
    ];
    kani::concrete_playback_run(concrete_vals, crate::c04::q::n2_u3::pred);
}

// failed check (?): 
#[test]
fn kani_concrete_playback_pred_13919700130146421995() {
    let concrete_vals: Vec<Vec<u8>> = vec![
        // 2ul
        vec![2, 0, 0, 0, 0, 0, 0, 0],
        // 2ul
        vec![2, 0, 0, 0, 0, 0, 0, 0],
        // 3ul
        vec![3, 0, 0, 0, 0, 0, 0, 0],
        // 0
        vec![0],
        // 2ul
        vec![2, 0, 0, 0, 0, 0, 0, 0],
        // 5ul
        vec![5, 0, 0, 0, 0, 0, 0, 0],
    ];
    kani::concrete_playback_run(concrete_vals, crate::c04::q::n2_u3::pred);
}

// failed check (?): 
#[test]
fn kani_concrete_playback_pred_15173173200475310471() {
    let concrete_vals: Vec<Vec<u8>> = vec![
        // 3ul
        vec![3, 0, 0, 0, 0, 0, 0, 0],
        // 3ul
        vec![3, 0, 0, 0, 0, 0, 0, 0],
        // 2ul
        vec![2, 0, 0, 0, 0, 0, 0, 0],
        // 0
        vec![0],
        // 3ul
        vec![3, 0, 0, 0, 0, 0, 0, 0],
    ];
    kani::concrete_playback_run(concrete_vals, crate::c04::q::n2_u3::pred);
}

// failed check (?): 
#[test]
fn kani_concrete_playback_pred_12693924397416707206() {
    let concrete_vals: Vec<Vec<u8>> = vec![
        // 0ul
        vec![0, 0, 0, 0, 0, 0, 0, 0],
        // 1ul
        vec![1, 0, 0, 0, 0, 0, 0, 0],
        // 72057594037927939ul
        vec![3, 0, 0, 0, 0, 0, 0, 1],
        // 0
        vec![0],
        // 0ul
        vec![0, 0, 0, 0, 0, 0, 0, 0],
        // 5ul
        vec![5, 0, 0, 0, 0, 0, 0, 0],
    ];
    kani::concrete_playback_run(concrete_vals, crate::c04::q::n2_u3::pred);
}
