// verif-case: property=C04 flavour=da feature=c04 harness=c04::q::n2_u3::pred safety_only=0
// Solver counter-example(s) produced by Kani's concrete playback; replay with
//   ./check C04 --replay /verif/replay/cases/c04__q__n2_u3__pred.rs

// failed check (?): 
#[test]
fn kani_concrete_playback_pred_10462911906174863612() {
    let concrete_vals: Vec<Vec<u8>> = vec![
        // 0ul
        vec![0, 0, 0, 0, 0, 0, 0, 0],
        // 2ul
        vec![2, 0, 0, 0, 0, 0, 0, 0],
        // 2ul
        vec![2, 0, 0, 0, 0, 0, 0, 0],
        // 0
        vec![0],
        // 0ul
        vec![0, 0, 0, 0, 0, 0, 0, 0],
        // 4ul
        vec![4, 0, 0, 0, 0, 0, 0, 0],
    ];
    kani::concrete_playback_run(concrete_vals, crate::c04::q::n2_u3::pred);
}

// failed check (?): 
#[test]
fn kani_concrete_playback_pred_629052200582962032() {
    let concrete_vals: Vec<Vec<u8>> = vec![
        // 3ul
        vec![3, 0, 0, 0, 0, 0, 0, 0],
        // 3ul
        vec![3, 0, 0, 0, 0, 0, 0, 0],
        // 1ul
        vec![1, 0, 0, 0, 0, 0, 0, 0],
        // 1
        vec![1],
        // 3ul
        vec![3, 0, 0, 0, 0, 0, 0, 0],
    ];
    kani::concrete_playback_run(concrete_vals, crate::c04::q::n2_u3::pred);
}

// failed check (?): 
#[test]
fn kani_concrete_playback_pred_395640629258967316() {
    let concrete_vals: Vec<Vec<u8>> = vec![
        // 0ul
        vec![0, 0, 0, 0, 0, 0, 0, 0],
        // 1ul
        vec![1, 0, 0, 0, 0, 0, 0, 0],
        // 49ul
        vec![49, 0, 0, 0, 0, 0, 0, 0],
        // 0
        vec![0],
        // 0ul
        vec![0, 0, 0, 0, 0, 0, 0, 0],
    ];
    kani::concrete_playback_run(concrete_vals, crate::c04::q::n2_u3::pred);
}
