// verif-case: property=C10 flavour=da feature=c10 harness=c10::q::slice_copy_reset safety_only=0
// Solver counter-example(s) produced by Kani's concrete playback; replay with
//   ./check C10 --replay /verif/replay/cases/c10__q__slice_copy_reset.rs

// failed check (assertion): assertion failed: dst[q] == src[from + q - to]
#[test]
fn kani_concrete_playback_slice_copy_reset_4398748394103093753() {
    let concrete_vals: Vec<Vec<u8>> = vec![
        // 65533
        vec![253, 255],
        // 65533
        vec![253, 255],
        // 65533
        vec![253, 255],
        // 65533
        vec![253, 255],
        // 65534
        vec![254, 255],
        // 65534
        vec![254, 255],
        // 65534
        vec![254, 255],
        // 65534
        vec![254, 255],
        // 1ul
        vec![1, 0, 0, 0, 0, 0, 0, 0],
        // 3ul
        vec![3, 0, 0, 0, 0, 0, 0, 0],
        // 1ul
        vec![1, 0, 0, 0, 0, 0, 0, 0],
        // 3ul
        vec![3, 0, 0, 0, 0, 0, 0, 0],
    ];
    kani::concrete_playback_run(concrete_vals, crate::c10::q::slice_copy_reset);
}
