// verif-case: property=C04 flavour=da feature=c04_t harness=c04::t::state::index_of_from_any_state safety_only=0
// Solver counter-example(s) produced by Kani's concrete playback; replay with
//   ./check C04 --replay /verif/replay/cases/c04__t__state__index_of_from_any_state.rs

// failed check (assertion): assertion failed: x_at(&high, j) != q
#[test]
fn kani_concrete_playback_index_of_from_any_state_12247914940317285446() {
    let concrete_vals: Vec<Vec<u8>> = vec![
        // 576619081990406339ul
        vec![195, 0, 192, 0, 0, 144, 0, 8],
        // 17005153484656287752ul
        vec![8, 32, 239, 67, 255, 112, 254, 235],
        // 541702927871ul
        vec![255, 181, 2, 32, 126, 0, 0, 0],
        // 101ul
        vec![101, 0, 0, 0, 0, 0, 0, 0],
        // 60ul
        vec![60, 0, 0, 0, 0, 0, 0, 0],
        // 161ul
        vec![161, 0, 0, 0, 0, 0, 0, 0],
    ];
    kani::concrete_playback_run(concrete_vals, crate::c04::t::state::index_of_from_any_state);
}
