// verif-case: property=C03 flavour=da feature=c03 harness=c03::q::n3_umaxm1::build_get_iter safety_only=0
// Solver counter-example(s) produced by Kani's concrete playback; replay with
//   ./check C03 --replay /verif/replay/cases/c03__q__n3_umaxm1__build_get_iter.rs

// failed check (?): 
#[test]
fn kani_concrete_playback_build_get_iter_84708337690152489() {
    let concrete_vals: Vec<Vec<u8>> = vec![
        // 10449430122910274053ul
        vec![5, 82, 85, 85, 85, 213, 3, 145],
        // 10473074020953970181ul
        vec![5, 86, 85, 85, 85, 213, 87, 145],
        // 15372990415533070334ul
        vec![254, 87, 85, 85, 85, 213, 87, 213],
        // 8628896886041870338ul
        vec![2, 0, 0, 0, 0, 0, 192, 119],
        // 3ul
        vec![3, 0, 0, 0, 0, 0, 0, 0],
    ];
    kani::concrete_playback_run(concrete_vals, crate::c03::q::n3_umaxm1::build_get_iter);
}

// failed check (?): 
#[test]
fn kani_concrete_playback_build_get_iter_5740129291629182084() {
    let concrete_vals: Vec<Vec<u8>> = vec![
        // 4323455642275676159ul
        vec![255, 255, 255, 255, 255, 255, 255, 59],
        // 4323455642275676159ul
        vec![255, 255, 255, 255, 255, 255, 255, 59],
        // 4323455642275676159ul
        vec![255, 255, 255, 255, 255, 255, 255, 59],
        // 2ul
        vec![2, 0, 0, 0, 0, 0, 0, 0],
        // 2ul
        vec![2, 0, 0, 0, 0, 0, 0, 0],
        // 2ul
        vec![2, 0, 0, 0, 0, 0, 0, 0],
        // 2ul
        vec![2, 0, 0, 0, 0, 0, 0, 0],
    ];
    kani::concrete_playback_run(concrete_vals, crate::c03::q::n3_umaxm1::build_get_iter);
}

// failed check (?): 
#[test]
fn kani_concrete_playback_build_get_iter_9071053788713197797() {
    let concrete_vals: Vec<Vec<u8>> = vec![
        // 0ul
        vec![0, 0, 0, 0, 0, 0, 0, 0],
        // 9223372036854775807ul
        vec![255, 255, 255, 255, 255, 255, 255, 127],
        // 18446744073709551614ul
        vec![254, 255, 255, 255, 255, 255, 255, 255],
        // 1ul
        vec![1, 0, 0, 0, 0, 0, 0, 0],
        // 2ul
        vec![2, 0, 0, 0, 0, 0, 0, 0],
        // 0ul
        vec![0, 0, 0, 0, 0, 0, 0, 0],
        // 0ul
        vec![0, 0, 0, 0, 0, 0, 0, 0],
    ];
    kani::concrete_playback_run(concrete_vals, crate::c03::q::n3_umaxm1::build_get_iter);
}
