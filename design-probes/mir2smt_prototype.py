#!/usr/bin/env python3
"""Prototype: symbolic execution of a straight-line MIR function into SMT-LIB2 (bit-vectors)."""
import re, sys, subprocess

MIR = open('/root/scratch/mir/sux.mir').read()
ABSTRACT_ROT = True

def get_fn(name_re):
    m = re.search(r'^fn ' + name_re + r'\(.*?\n\}\n', MIR, re.S | re.M)
    assert m, name_re
    return m.group(0)

BITS = {'usize':64,'u64':64,'u32':32,'u128':128,'u8':8,'u16':16,'i32':32,'bool':1}

class Sym:
    def __init__(self):
        self.defs = []      # SMT declarations
        self.panic = []     # list of panic conditions (SMT bool terms)
        self.n = 0
    def fresh(self, sort):
        self.n += 1; v = f't{self.n}'; self.defs.append(f'(declare-const {v} {sort})'); return v

def bv(w): return f'(_ BitVec {w})'
def const(val, w): return f'(_ bv{val % (1<<w)} {w})'

def run(fn_text, args, S):
    """args: dict local -> (kind, value) ; kind 'int' -> (term,width) ; 'arr' -> list of (term,width); 'tup'"""
    # parse header types
    hdr = re.match(r'fn .*?\((.*?)\) -> (.*?) \{', fn_text, re.S)
    types = {}
    for a in re.findall(r'(_\d+): ([^,)]+(?:\[[^\]]*\])?)', hdr.group(1)):
        types[a[0]] = a[1].strip()
    for m in re.finditer(r'let (?:mut )?(_\d+): ([^;]+);', fn_text):
        types[m.group(1)] = m.group(2).strip()
    env = dict(args)
    blocks = dict((m.group(1), m.group(2)) for m in re.finditer(r'\n    (bb\d+): \{\n(.*?)\n    \}', fn_text, re.S))
    def operand(tok):
        tok = tok.strip()
        m = re.match(r'(?:copy|move) (.*)$', tok)
        if m: return place(m.group(1))
        m = re.match(r'const (\d+)_(\w+)$', tok)
        if m: return ('int', const(int(m.group(1)), BITS[m.group(2)]), BITS[m.group(2)], max(1,int(m.group(1)).bit_length()))
        raise Exception('operand ' + tok)
    def place(p):
        p = p.strip()
        m = re.match(r'\((_\d+)\.(\d+): \w+\)$', p)
        if m:
            v = env[m.group(1)]; assert v[0] == 'tup'; return v[1][int(m.group(2))]
        m = re.match(r'(_\d+)\[(_\d+)\]$', p)
        if m:
            arr = env[m.group(1)]; idx = env[m.group(2)]
            # index must be a constant
            k = int(re.match(r'\(_ bv(\d+) 64\)', idx[1]).group(1)); return arr[1][k]
        return env[p]
    cur = 'bb0'
    while True:
        body = blocks[cur]
        stmts = [s.strip() for s in body.split('\n') if s.strip()]
        nxt = None
        for s in stmts:
            if s.startswith('assert('):
                m = re.match(r'assert\((!?)(?:move |copy )?(.*?), ".*\) -> \[success: (bb\d+)', s)
                neg, cond, succ = m.group(1), m.group(2), m.group(3)
                c = place(cond)
                # bool as BitVec 1
                ok = f'(= {c[1]} #b1)' if not neg else f'(= {c[1]} #b0)'
                S.panic.append(f'(not {ok})')
                nxt = succ; continue
            if s == 'return;':
                return env['_0']
            mc = re.match(r'(_\d+) = core::num::<impl u64>::rotate_right\((.*), (.*)\) -> \[return: (bb\d+)', s)
            if mc:
                a = operand(mc.group(2)); b = operand(mc.group(3))
                bt = b[1]
                if b[2] < 64: bt = f'((_ zero_extend {64-b[2]}) {b[1]})'
                if ABSTRACT_ROT and b[1].startswith('shb'):
                    env[mc.group(1)] = ('int', 'rot_any', 64, 64)
                elif ABSTRACT_ROT:
                    env[mc.group(1)] = a if a[1]=='rot_any' else ('int', f'(ext_rotate_right {a[1]} {bt})', 64, 64)
                else:
                    env[mc.group(1)] = ('int', f'(ext_rotate_right {a[1]} {bt})', 64, 64)
                nxt = mc.group(4); continue
            m = re.match(r'(_\d+) = (.*);$', s)
            assert m, s
            dst, rhs = m.group(1), m.group(2)
            w = BITS.get(types.get(dst, ''), None)
            mm = re.match(r'(\w+)\((.*), (.*)\)$', rhs)
            if mm and mm.group(1) in ('Add','Sub','Mul','BitAnd','BitOr','BitXor','Shl','Shr','Lt','Le','Gt','Ge','Eq','Ne','AddWithOverflow','SubWithOverflow','MulWithOverflow'):
                op = mm.group(1); a = operand(mm.group(2)); b = operand(mm.group(3))
                aw = a[2]
                bt = b[1]
                ua = a[3] if len(a)>3 else aw
                ub = b[3] if len(b)>3 else b[2]
                if op in ('Shl','Shr'):
                    # shift amount may have different width: resize
                    if b[2] < aw: bt = f'((_ zero_extend {aw-b[2]}) {b[1]})'
                    elif b[2] > aw: bt = f'((_ extract {aw-1} 0) {b[1]})'
                    env[dst] = ('int', f'({"bvshl" if op=="Shl" else "bvlshr"} {a[1]} {bt})', aw)
                elif op in ('Add','Sub','Mul','BitAnd','BitOr','BitXor'):
                    f = {'Add':'bvadd','Sub':'bvsub','Mul':'bvmul','BitAnd':'bvand','BitOr':'bvor','BitXor':'bvxor'}[op]
                    env[dst] = ('int', f'({f} {a[1]} {b[1]})', aw)
                elif op in ('Lt','Le','Gt','Ge','Eq','Ne'):
                    f = {'Lt':'bvult','Le':'bvule','Gt':'bvugt','Ge':'bvuge','Eq':'=','Ne':'distinct'}[op]
                    env[dst] = ('int', f'(ite ({f} {a[1]} {b[1]}) #b1 #b0)', 1)
                else:
                    base = op[:3]
                    if base == 'Add':
                        wide = f'(bvadd ((_ zero_extend 1) {a[1]}) ((_ zero_extend 1) {b[1]}))'
                        ov = f'((_ extract {aw} {aw}) {wide})'
                        res = f'(bvadd {a[1]} {b[1]})'
                    elif base == 'Sub':
                        ov = f'(ite (bvult {a[1]} {b[1]}) #b1 #b0)'
                        res = f'(bvsub {a[1]} {b[1]})'
                    else:
                        if ua + ub <= aw:
                            ov = '#b0'   # cannot overflow: operands are zero-extensions of narrower values
                        else:
                            ov = f'(ite (bvumul_noovfl {a[1]} {b[1]}) #b0 #b1)'
                        res = f'(bvmul {a[1]} {b[1]})'
                    env[dst] = ('tup', [('int', res, aw, min(aw, ua+ub)), ('int', ov, 1, 1)])
                continue
            mm = re.match(r'(.*) as (\w+) \(IntToInt\)$', rhs)
            if mm:
                a = operand(mm.group(1)); tw = BITS[mm.group(2)]
                if tw > a[2]: t = f'((_ zero_extend {tw-a[2]}) {a[1]})'
                elif tw < a[2]: t = f'((_ extract {tw-1} 0) {a[1]})'
                else: t = a[1]
                env[dst] = ('int', t, tw, min(tw, a[3] if len(a)>3 else a[2])); continue
            mm = re.match(r'\[(.*)\]$', rhs)
            if mm:
                env[dst] = ('arr', [operand(x) for x in mm.group(1).split(', ')]); continue
            mm = re.match(r'const (\d+)_(\w+)$', rhs)
            if mm or rhs.startswith('copy ') or rhs.startswith('move '):
                env[dst] = operand(rhs); continue
            raise Exception('stmt ' + s)
        assert nxt, body
        cur = nxt


import sys, time
which = sys.argv[2] if len(sys.argv)>2 else 'edge_1'
S = Sym(); S0 = Sym()
decl = ['(declare-const shard (_ BitVec 64))','(declare-const log2 (_ BitVec 32))','(declare-const l (_ BitVec 32))','(declare-const sig (_ BitVec 64))','(declare-const sig1 (_ BitVec 64))','(declare-const shb (_ BitVec 32))','(declare-const rot_any (_ BitVec 64))']
if which == 'edge_1':
    fn = get_fn(r'edge_1')
    mk = lambda sh: {'_1':sh,'_2':('int','log2',32,32),'_3':('int','l',32,32),'_4':('arr',[('int','sig',64,64)])}
else:
    fn = get_fn(r'edge_2_big')
    mk = lambda sh: {'_1':sh,'_2':('int','shb',32,32),'_3':('int','log2',32,32),'_4':('int','l',32,32),'_5':('arr',[('int','sig',64,64),('int','sig1',64,64)])}
res0 = run(fn, mk(('int','(_ bv0 64)',64,1)), S0)
res = run(fn, mk(('int','shard',64,64)), S)
v = [x[1] for x in res[1]]; z = [x[1] for x in res0[1]]
base = ['(set-logic ALL)'] + decl
base += ['(define-fun l64 () (_ BitVec 64) ((_ zero_extend 32) l))','(define-fun s64 () (_ BitVec 64) ((_ zero_extend 32) log2))']
base += ['(assert (bvuge l #x00000001))','(assert (bvule log2 #x0000001f))','(assert (bvule shb #x0000003f))','(assert (bvule (bvshl (bvadd l64 #x0000000000000002) s64) #x0000000100000000))','(assert (bvult shard #x0000000100000000))']
base += ['(define-fun nv () (_ BitVec 64) (bvshl (bvadd l64 #x0000000000000002) s64))']
base += [f'(define-fun v{k} () (_ BitVec 64) {v[k]})' for k in range(3)] + [f'(define-fun z{k} () (_ BitVec 64) {z[k]})' for k in range(3)]
base += ['(define-fun off () (_ BitVec 64) (bvmul shard nv))']
obs = [(f'nopanic{i}', f'(not {p})') for i,p in enumerate(S.panic)]
obs += [('distinct', '(and (distinct z0 z1) (distinct z1 z2) (distinct z0 z2))'),
       ('z0range', '(bvult z0 nv)'), ('z1range', '(bvult z1 nv)'), ('z2range', '(bvult z2 nv)'),
       ('shift0', '(= v0 (bvadd z0 off))'), ('shift1', '(= v1 (bvadd z1 off))'), ('shift2', '(= v2 (bvadd z2 off))')]
sval = sys.argv[1] if len(sys.argv)>1 else None
extra = [f'(assert (= log2 (_ bv{sval} 32)))'] if sval is not None and sval!='sym' else []
for name, ob in obs:
    q = base + extra + [f'(assert (not {ob}))','(check-sat)']
    open('q.smt2','w').write('\n'.join(q)+'\n')
    t=time.time()
    try:
        r = subprocess.run(['z3','q.smt2'], capture_output=True, text=True, timeout=90).stdout.strip()
    except subprocess.TimeoutExpired:
        r='TIMEOUT'
    print(f'{name:10s} {r:8s} {time.time()-t:6.1f}s', flush=True)
