#![allow(unused)]
use sux::prelude::*;
use sux::bits::{BitVec, BitFieldVec};

fn lowmask(k: usize) -> usize { if k >= 64 { !0 } else { (1usize << k) - 1 } }

// sparse symbolic words: at most 3 ones in 2 words (symbolic positions), concrete params
#[cfg(kani)]
#[kani::proof]
#[kani::unwind(7)]
fn p1b_select_adapt_sparse() {
    let pos: [usize; 3] = kani::any();
    let on: [bool; 3] = kani::any();
    let mut words = [0usize; 2];
    let mut k = 0;
    while k < 3 { kani::assume(pos[k] < 128); if on[k] { words[pos[k] / 64] |= 1usize << (pos[k] % 64); } k += 1; }
    let bv = unsafe { BitVec::from_raw_parts(words, 128) };
    let bv: AddNumBits<_> = bv.into();
    let sel = SelectAdapt::with_inv(bv, 1, 0);
    let r: usize = kani::any();
    kani::assume(r <= 4);
    let ones = (words[0].count_ones() + words[1].count_ones()) as usize;
    match sel.select(r) {
        None => { assert!(r >= ones); }
        Some(p) => {
            assert!(r < ones);
            assert!(p < 128);
            let w = words[p / 64];
            assert!((w >> (p % 64)) & 1 == 1);
            let before = (if p / 64 == 0 { 0 } else { words[0].count_ones() as usize }) + (w & lowmask(p % 64)).count_ones() as usize;
            assert_eq!(before, r);
        }
    }
}

macro_rules! rank_small_probe {
    ($name:ident, $k:tt, $nw:expr, $unw:expr) => {
        #[cfg(kani)]
        #[kani::proof]
        #[kani::unwind($unw)]
        fn $name() {
            const NW: usize = $nw;
            let words: [usize; NW] = kani::any();
            let len = NW * 64;
            let bv = unsafe { BitVec::from_raw_parts(words, len) };
            let rs = sux::rank_small![$k; bv];
            let p: usize = kani::any();
            kani::assume(p <= len + 1);
            let got = rs.rank(p);
            let mut exp = 0usize;
            let pp = if p > len { len } else { p };
            let wp = pp / 64;
            let mut i = 0;
            while i < NW { if i < wp { exp += words[i].count_ones() as usize; } i += 1; }
            if wp < NW { exp += (words[wp] & lowmask(pp % 64)).count_ones() as usize; }
            assert_eq!(got, exp);
        }
    };
}
rank_small_probe!(p6_rs1_17w, 1, 17, 20);
rank_small_probe!(p6_rs4_130w, 4, 130, 135);

use sux::dict::RearCodedListBuilder;
use sux::traits::AddNumBits;

// RCL minimal: one 1-byte string, k = 1
#[cfg(kani)]
#[kani::proof]
#[kani::unwind(4)]
fn p5b_rcl_min() {
    let a: [u8; 1] = kani::any();
    kani::assume(a[0] >= 1 && a[0] < 128);
    let sa = unsafe { std::str::from_utf8_unchecked(&a) };
    let mut bld = RearCodedListBuilder::new(1);
    bld.push(sa);
    let rcl = bld.build();
    let mut out = Vec::with_capacity(8);
    rcl.get_in_place(0, &mut out);
    assert!(out.len() == 1 && out[0] == a[0]);
    std::mem::forget(out); std::mem::forget(rcl);
}

// select with exact K ones at symbolic increasing positions, concrete counts
#[cfg(kani)]
#[kani::proof]
#[kani::unwind(6)]
fn p1c_select_adapt_exactk() {
    const K: usize = 3;
    let pos: [usize; K] = kani::any();
    kani::assume(pos[0] < pos[1] && pos[1] < pos[2] && pos[2] < 128);
    let mut words = [0usize; 2];
    let mut k = 0;
    while k < K { words[pos[k] / 64] |= 1usize << (pos[k] % 64); k += 1; }
    let bv = unsafe { BitVec::from_raw_parts(words, 128) };
    let bv = unsafe { AddNumBits::from_raw_parts(bv, K) };
    let sel = SelectAdapt::with_inv(bv, 1, 0);
    let r: usize = kani::any();
    kani::assume(r <= K + 1);
    match sel.select(r) {
        None => { assert!(r >= K); }
        Some(p) => { assert!(r < K && p == pos[r]); }
    }
    std::mem::forget(sel);
}
