#![allow(unused)]
use sux::prelude::*;
use sux::bits::BitVec;
use sux::traits::AddNumBits;

fn lowmask(k: usize) -> usize { if k >= 64 { !0 } else { (1usize << k) - 1 } }

// Query-side step check for SelectAdapt (16-bit spans): arbitrary inventory satisfying the
// documented invariant, one symbolic query.
#[cfg(kani)]
#[kani::proof]
#[kani::unwind(10)]
fn qs_select_adapt_u16() {
    const L: usize = 3;      // 8 ones per inventory entry
    const M: usize = 0;      // 1 word = 4 u16 per subinventory
    const S16: usize = 1;    // L - (M + 2): one subinventory entry every 2 ones
    const INV: usize = 8;    // at most 64 ones -> 8 entries
    let w: usize = kani::any();
    let ones = w.count_ones() as usize;
    let inv: [usize; INV * 2 + 1] = kani::any();
    // invariant
    let ninv = (ones + 7) / 8;
    let mut i = 0;
    while i < INV {
        if i < ninv {
            let start = inv[2 * i];
            kani::assume(start < 64);
            kani::assume((w >> start) & 1 == 1 && (w & lowmask(start)).count_ones() as usize == 8 * i);
            let sub = inv[2 * i + 1];
            kani::assume(sub & 0xFFFF == 0);
            let mut j = 1;
            while j < 4 {
                let r = 8 * i + 2 * j;
                if r < ones {
                    let off = (sub >> (16 * j)) & 0xFFFF;
                    let pos = start + off;
                    kani::assume(pos < 64 && (w >> pos) & 1 == 1 && (w & lowmask(pos)).count_ones() as usize == r);
                }
                j += 1;
            }
        }
        i += 1;
    }
    let bv = unsafe { BitVec::from_raw_parts([w], 64) };
    let bv = unsafe { AddNumBits::from_raw_parts(bv, ones) };
    let sel = unsafe { SelectAdapt::verif_from_raw_parts(bv, inv, [0usize; INV * 2 + 1], L, S16, M) };
    let r: usize = kani::any();
    kani::assume(r <= 65);
    match sel.select(r) {
        None => { assert!(r >= ones); }
        Some(p) => {
            assert!(r < ones && p < 64);
            assert!((w >> p) & 1 == 1);
            assert_eq!((w & lowmask(p)).count_ones() as usize, r);
        }
    }
}
