#![allow(unused)]
use sux::prelude::*;
use sux::bits::AtomicBitFieldVec;
use sux::traits::bit_field_slice::AtomicBitFieldSlice;
use std::sync::atomic::{AtomicUsize, Ordering};

fn lowmask(k: usize) -> usize { if k >= 64 { !0 } else { (1usize << k) - 1 } }

static mut BASE: *mut usize = core::ptr::null_mut();
static mut PROT: [usize; 2] = [0; 2];
static mut SNAP: [usize; 2] = [0; 2];
static mut BUDGET: usize = 0;

fn interfere(id: usize, _addr: *const u8) {
    unsafe {
        if id & 0x100 != 0 {
            let mut k = 0;
            while k < 2 { let p = BASE.add(k); assert!((*p ^ SNAP[k]) & !PROT[k] == 0); SNAP[k] = *p; k += 1; }
            return;
        }
        let mut k = 0;
        while k < 2 { SNAP[k] = *BASE.add(k); k += 1; }
        if BUDGET == 0 { return; }
        let go: bool = kani::any();
        if !go { return; }
        BUDGET -= 1;
        let mut k = 0;
        while k < 2 {
            let noise: usize = kani::any();
            let p = BASE.add(k);
            *p = (*p & PROT[k]) | (noise & !PROT[k]);
            SNAP[k] = *p;
            k += 1;
        }
    }
}

#[cfg(kani)]
#[kani::proof]
#[kani::unwind(5)]
fn c13_straddle() {
    let w: usize = kani::any();
    kani::assume(w >= 2 && w <= 63);
    let init: [usize; 2] = kani::any();
    let words = [AtomicUsize::new(init[0]), AtomicUsize::new(init[1])];
    let n = 128 / w;
    let v = unsafe { AtomicBitFieldVec::<usize, _>::from_raw_parts(words, w, n) };
    let i: usize = kani::any();
    kani::assume(i < n);
    let pos = i * w;
    kani::assume(pos < 64 && pos + w > 64); // straddles words 0 and 1
    let x: usize = kani::any();
    kani::assume(x <= lowmask(w));
    unsafe {
        BASE = v.as_slice().as_ptr() as *mut usize;
        PROT[0] = lowmask(w) << pos;          // high part of word 0
        PROT[1] = lowmask(w) >> (64 - pos);   // low part of word 1
        BUDGET = 2;
        sux::verif::SCHED_HOOK = Some(interfere);
    }
    v.set_atomic(i, x, Ordering::Relaxed);
    unsafe { sux::verif::SCHED_HOOK = None; }
    assert_eq!(v.get_atomic(i, Ordering::Relaxed), x);
    kani::cover!(true);
}
