#![allow(unused)]
use sux::prelude::*;
use sux::bits::BitFieldVec;

macro_rules! setget {
    ($name:ident, $W:ty) => {
        #[cfg(kani)]
        #[kani::proof]
        #[kani::unwind(8)]
        fn $name() {
            const B: usize = <$W>::BITS as usize;
            let words: [$W; 3] = kani::any();
            let w: usize = kani::any();
            kani::assume(w <= B);
            let len: usize = kani::any();
            kani::assume(len >= 2 && len <= 6 && len * w <= 3 * B);
            let mut v = unsafe { BitFieldVec::<$W, [$W; 3]>::from_raw_parts(words, w, len) };
            let before = unsafe { BitFieldVec::<$W, [$W; 3]>::from_raw_parts(words, w, len) };
            let i: usize = kani::any(); kani::assume(i < len);
            let j: usize = kani::any(); kani::assume(j < len && j != i);
            let x: $W = kani::any();
            let m: $W = if w == 0 { 0 } else { <$W>::MAX >> (B - w) };
            kani::assume(x & m == x);
            v.set(i, x);
            assert_eq!(v.get(i), x);
            assert_eq!(v.get(j), before.get(j));
            kani::cover!(true);
        }
    };
}
setget!(t_setget_u128, u128);
setget!(t_setget_usize, usize);

#[cfg(kani)]
#[kani::proof]
#[kani::unwind(4)]
fn t_must_reject() {
    let words: [usize; 2] = kani::any();
    let mut v = unsafe { BitFieldVec::<usize, [usize; 2]>::from_raw_parts(words, 5, 10) };
    let i: usize = kani::any();
    kani::assume(i >= 10);
    v.set(i, 0);
    kani::cover!(true, "returned normally");
}
