use sux::prelude::*;
use sux::utils::*;
use sux::dict::RearCodedListBuilder;

fn bt_stub() -> std::backtrace::Backtrace { std::backtrace::Backtrace::disabled() }

#[cfg(kani)]
#[kani::proof]
#[kani::unwind(6)]
#[kani::stub(std::backtrace::Backtrace::capture, bt_stub)]
fn s1_gauss_2eq() {
    let c: [u8; 2] = kani::any();
    let mut sys = Modulo2System::<u8>::new(2);
    sys.push(unsafe { Modulo2Equation::from_parts(vec![0, 1], c[0]) });
    sys.push(unsafe { Modulo2Equation::from_parts(vec![0], c[1]) });
    let orig = sys.clone();
    let t: [u8; 2] = kani::any();
    let solvable_by_t = orig.check(&t);
    let r1 = sys.gaussian_elimination();
    match &r1 {
        Ok(s) => { assert!(orig.check(s)); }
        Err(_) => { assert!(!solvable_by_t); }
    }
    std::mem::forget(r1); std::mem::forget(sys); std::mem::forget(orig);
}

#[cfg(kani)]
#[kani::proof]
#[kani::unwind(6)]
#[kani::stub(std::backtrace::Backtrace::capture, bt_stub)]
fn s2_lazy_2eq() {
    let c: [u8; 2] = kani::any();
    let mut sys = Modulo2System::<u8>::new(2);
    sys.push(unsafe { Modulo2Equation::from_parts(vec![0, 1], c[0]) });
    sys.push(unsafe { Modulo2Equation::from_parts(vec![0], c[1]) });
    let orig = sys.clone();
    let t: [u8; 2] = kani::any();
    let solvable_by_t = orig.check(&t);
    let r1 = sys.lazy_gaussian_elimination();
    match &r1 {
        Ok(s) => { assert!(orig.check(s)); }
        Err(_) => { assert!(!solvable_by_t); }
    }
    std::mem::forget(r1); std::mem::forget(sys); std::mem::forget(orig);
}

#[cfg(kani)]
#[kani::proof]
#[kani::unwind(6)]
fn s3_rcl_two_k2_get() {
    let a: [u8; 1] = kani::any();
    let b: [u8; 1] = kani::any();
    kani::assume(a[0] >= 1 && a[0] < 128 && b[0] >= 1 && b[0] < 128 && a[0] != b[0]);
    let sa = unsafe { std::str::from_utf8_unchecked(&a) };
    let sb = unsafe { std::str::from_utf8_unchecked(&b) };
    let mut bld = RearCodedListBuilder::new(2);
    bld.push(sa); bld.push(sb);
    let rcl = bld.build();
    let mut out = Vec::with_capacity(8);
    rcl.get_in_place(1, &mut out);
    assert!(out.len() == 1 && out[0] == b[0]);
    std::mem::forget(out); std::mem::forget(rcl);
}
