#![allow(unused)]
use sux::prelude::*;
use sux::bits::BitVec;
use sux::traits::AddNumBits;

pub trait AlignStub<T> {
    fn st_align_to_mut<U>(&mut self) -> (&mut [T], &mut [U], &mut [T]);
    fn st_align_to<U>(&self) -> (&[T], &[U], &[T]);
}
impl<T> AlignStub<T> for [T] {
    fn st_align_to_mut<U>(&mut self) -> (&mut [T], &mut [U], &mut [T]) {
        let bytes = core::mem::size_of_val(self);
        let n = bytes / core::mem::size_of::<U>();
        let len = self.len();
        let p = self.as_mut_ptr();
        unsafe {
            (core::slice::from_raw_parts_mut(p, 0),
             core::slice::from_raw_parts_mut(p as *mut U, n),
             core::slice::from_raw_parts_mut(p.add(len), 0))
        }
    }
    fn st_align_to<U>(&self) -> (&[T], &[U], &[T]) {
        let bytes = core::mem::size_of_val(self);
        let n = bytes / core::mem::size_of::<U>();
        let p = self.as_ptr();
        unsafe {
            (core::slice::from_raw_parts(p, 0),
             core::slice::from_raw_parts(p as *const U, n),
             core::slice::from_raw_parts(p.add(self.len()), 0))
        }
    }
}

#[cfg(kani)]
#[kani::proof]
#[kani::unwind(6)]
fn q1_select_adapt_min() {
    const K: usize = 2;
    let pos: [usize; K] = kani::any();
    kani::assume(pos[0] < pos[1] && pos[1] < 64);
    let mut words = [0usize; 1];
    let mut k = 0;
    while k < K { words[0] |= 1usize << pos[k]; k += 1; }
    let bv = unsafe { BitVec::from_raw_parts(words, 64) };
    let bv = unsafe { AddNumBits::from_raw_parts(bv, K) };
    let sel = SelectAdapt::with_inv(bv, 0, 0);
    let r: usize = kani::any();
    kani::assume(r <= K + 1);
    match sel.select(r) {
        None => { assert!(r >= K); }
        Some(p) => { assert!(r < K && p == pos[r]); }
    }
    std::mem::forget(sel);
}

fn lowmask(k: usize) -> usize { if k >= 64 { !0 } else { (1usize << k) - 1 } }

#[cfg(kani)]
#[kani::proof]
#[kani::unwind(10)]
fn q2_select9_min() {
    const K: usize = 2;
    let pos: [usize; K] = kani::any();
    kani::assume(pos[0] < pos[1] && pos[1] < 128);
    let mut words = [0usize; 2];
    let mut k = 0;
    while k < K { words[pos[k] / 64] |= 1usize << (pos[k] % 64); k += 1; }
    let bv = unsafe { BitVec::from_raw_parts(words, 128) };
    let sel = Select9::new(Rank9::new(bv));
    let r: usize = kani::any();
    kani::assume(r <= K + 1);
    match sel.select(r) {
        None => { assert!(r >= K); }
        Some(p) => { assert!(r < K && p == pos[r]); }
    }
    std::mem::forget(sel);
}

#[cfg(kani)]
#[kani::proof]
#[kani::unwind(10)]
fn q3_select_small_min() {
    const K: usize = 2;
    let pos: [usize; K] = kani::any();
    kani::assume(pos[0] < pos[1] && pos[1] < 128);
    let mut words = [0usize; 2];
    let mut k = 0;
    while k < K { words[pos[k] / 64] |= 1usize << (pos[k] % 64); k += 1; }
    let bv = unsafe { BitVec::from_raw_parts(words, 128) };
    let rs = sux::rank_small![0; bv];
    let sel = SelectSmall::<2, 9, _>::new(rs);
    let r: usize = kani::any();
    kani::assume(r <= K + 1);
    match sel.select(r) {
        None => { assert!(r >= K); }
        Some(p) => { assert!(r < K && p == pos[r]); }
    }
    std::mem::forget(sel);
}

// hinted kernels on BitVec: select_hinted over 3 symbolic words
#[cfg(kani)]
#[kani::proof]
#[kani::unwind(5)]
fn q4_select_hinted() {
    let words: [usize; 3] = kani::any();
    let bv = unsafe { BitVec::from_raw_parts(words, 192) };
    let hint_pos: usize = kani::any();
    kani::assume(hint_pos < 192);
    kani::assume((words[hint_pos / 64] >> (hint_pos % 64)) & 1 == 1);
    let mut hint_rank = (words[hint_pos / 64] & lowmask(hint_pos % 64)).count_ones() as usize;
    let mut i = 0; while i < 3 { if i < hint_pos / 64 { hint_rank += words[i].count_ones() as usize; } i += 1; }
    let total = (words[0].count_ones() + words[1].count_ones() + words[2].count_ones()) as usize;
    let rank: usize = kani::any();
    kani::assume(rank >= hint_rank && rank < total);
    let p = unsafe { bv.select_hinted(rank, hint_pos, hint_rank) };
    assert!(p < 192 && (words[p / 64] >> (p % 64)) & 1 == 1);
    let mut before = (words[p / 64] & lowmask(p % 64)).count_ones() as usize;
    let mut i = 0; while i < 3 { if i < p / 64 { before += words[i].count_ones() as usize; } i += 1; }
    assert_eq!(before, rank);
}
