#![allow(unused)]
use sux::prelude::*;
use sux::bits::{BitVec, BitFieldVec};
use sux::dict::{EliasFanoBuilder, RearCodedListBuilder};
use sux::utils::*;
use lender::Lender;

fn lowmask(k: usize) -> usize { if k >= 64 { !0 } else { (1usize << k) - 1 } }

// P1: SelectAdapt, 1 symbolic word, concrete params
#[cfg(kani)]
#[kani::proof]
#[kani::unwind(66)]
fn p1_select_adapt_1w() {
    let words: [usize; 1] = kani::any();
    let bv = unsafe { BitVec::from_raw_parts(words, 64) };
    let bv: AddNumBits<_> = bv.into();
    let sel = SelectAdapt::with_inv(bv, 1, 0);
    let r: usize = kani::any();
    kani::assume(r <= 65);
    match sel.select(r) {
        None => { assert!(r >= words[0].count_ones() as usize); }
        Some(p) => {
            assert!(p < 64);
            assert!((words[0] >> p) & 1 == 1);
            assert_eq!((words[0] & lowmask(p)).count_ones() as usize, r);
        }
    }
}

// P2: EF with witness-based selection back-end
struct WitSel<B> { bits: B, len: usize }
impl<B: AsRef<[usize]>> AsRef<[usize]> for WitSel<B> { fn as_ref(&self) -> &[usize] { self.bits.as_ref() } }
impl<B: AsRef<[usize]>> SelectUnchecked for WitSel<B> {
    unsafe fn select_unchecked(&self, rank: usize) -> usize {
        let w = self.bits.as_ref();
        let p: usize = kani::any();
        kani::assume(p < self.len);
        let wi = p / 64;
        kani::assume((w[wi] >> (p % 64)) & 1 == 1);
        let mut before = (w[wi] & lowmask(p % 64)).count_ones() as usize;
        let mut i = 0; while i < w.len() { if i < wi { before += w[i].count_ones() as usize; } i += 1; }
        kani::assume(before == rank);
        p
    }
}
impl<B: AsRef<[usize]>> SelectZeroUnchecked for WitSel<B> {
    unsafe fn select_zero_unchecked(&self, rank: usize) -> usize {
        let w = self.bits.as_ref();
        let p: usize = kani::any();
        kani::assume(p < self.len);
        let wi = p / 64;
        kani::assume((!w[wi] >> (p % 64)) & 1 == 1);
        let mut before = (!w[wi] & lowmask(p % 64)).count_ones() as usize;
        let mut i = 0; while i < w.len() { if i < wi { before += (!w[i]).count_ones() as usize; } i += 1; }
        kani::assume(before == rank);
        p
    }
}

#[cfg(kani)]
#[kani::proof]
#[kani::unwind(8)]
fn p2_ef_witsel() {
    let u: usize = kani::any();
    kani::assume(u <= 40);
    let x: [usize; 3] = kani::any();
    kani::assume(x[0] <= x[1] && x[1] <= x[2] && x[2] <= u);
    let mut b = EliasFanoBuilder::new(3, u);
    b.push(x[0]); b.push(x[1]); b.push(x[2]);
    let ef = b.build();
    let ef = unsafe { ef.map_high_bits(|h| { let len = h.len(); WitSel { bits: h, len } }) };
    let i: usize = kani::any(); kani::assume(i < 3);
    assert_eq!(ef.get(i), x[i]);
    let q: usize = kani::any();
    let s = ef.succ(q);
    let mut exp: Option<usize> = None;
    let mut k = 3; while k > 0 { k -= 1; if x[k] >= q { exp = Some(x[k]); } }
    match (s, exp) { (None, None) => {}, (Some((j, v)), Some(e)) => { assert!(v == e && j < 3 && x[j] == v); }, _ => { assert!(false); } }
}

fn bt_stub() -> std::backtrace::Backtrace { std::backtrace::Backtrace::disabled() }
// P4: mod2, concrete shape 3 eqs over 2 vars: [0,1],[0],[0,1]; symbolic constants
#[cfg(kani)]
#[kani::proof]
#[kani::unwind(8)]
#[kani::stub(std::backtrace::Backtrace::capture, bt_stub)]
fn p4_mod2_shape() {
    let c: [u8; 3] = kani::any();
    let mut sys = Modulo2System::<u8>::new(2);
    sys.push(unsafe { Modulo2Equation::from_parts(vec![0, 1], c[0]) });
    sys.push(unsafe { Modulo2Equation::from_parts(vec![0], c[1]) });
    sys.push(unsafe { Modulo2Equation::from_parts(vec![0, 1], c[2]) });
    let orig = sys.clone();
    let mut lazy = sys.clone();
    let t: [u8; 2] = kani::any();
    let solvable_by_t = orig.check(&t);
    let r1 = sys.gaussian_elimination();
    match &r1 {
        Ok(s) => { assert!(orig.check(s)); }
        Err(_) => { assert!(!solvable_by_t); }
    }
    std::mem::forget(r1);
    let r2 = lazy.lazy_gaussian_elimination();
    match &r2 {
        Ok(s) => { assert!(orig.check(s)); }
        Err(_) => { assert!(!solvable_by_t); }
    }
    std::mem::forget(r2);
    std::mem::forget(sys); std::mem::forget(lazy); std::mem::forget(orig);
}

// P5: RCL concrete shape: "ab?" style: lens (2,2), lcp 1 ; k=2 ; symbolic bytes
#[cfg(kani)]
#[kani::proof]
#[kani::unwind(8)]
fn p5_rcl_shape() {
    let a: [u8; 2] = kani::any();
    let b1: u8 = kani::any();
    kani::assume(a[0] >= 1 && a[0] < 128 && a[1] >= 1 && a[1] < 128 && b1 >= 1 && b1 < 128 && b1 != a[1]);
    let b = [a[0], b1];
    let sa = unsafe { std::str::from_utf8_unchecked(&a) };
    let sb = unsafe { std::str::from_utf8_unchecked(&b) };
    let mut bld = RearCodedListBuilder::new(2);
    bld.push(sa); bld.push(sb);
    let rcl = bld.build();
    assert_eq!(rcl.len(), 2);
    let mut out = Vec::with_capacity(8);
    rcl.get_in_place(1, &mut out);
    assert!(out.len() == 2 && out[0] == b[0] && out[1] == b[1]);
    rcl.get_in_place(0, &mut out);
    assert!(out.len() == 2 && out[0] == a[0] && out[1] == a[1]);
    let r = rcl.index_of(sb);
    assert!(r == Some(1));
}

// P9: LineLender over Cursor
#[cfg(kani)]
#[kani::proof]
#[kani::unwind(12)]
fn p9_line_lender() {
    let data: [u8; 3] = kani::any();
    kani::assume(data[0] < 128 && data[1] < 128 && data[2] < 128);
    let cur = std::io::Cursor::new(data);
    let mut ll = LineLender::new(cur);
    let mut n1 = 0usize;
    while let Some(r) = ll.next() { assert!(r.is_ok()); n1 += 1; if n1 > 4 { break; } }
    let mut ll = ll.rewind().unwrap();
    let mut n2 = 0usize;
    while let Some(r) = ll.next() { assert!(r.is_ok()); n2 += 1; if n2 > 4 { break; } }
    assert_eq!(n1, n2);
}
mod ef;
mod small;
