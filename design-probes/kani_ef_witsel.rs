use sux::prelude::*;
use sux::bits::{BitVec, BitFieldVec};
use sux::dict::EliasFanoBuilder;

fn lowmask(k: usize) -> usize { if k >= 64 { !0 } else { (1usize << k) - 1 } }

pub struct WitSel<B> { pub bits: B, pub len: usize }
impl<B: AsRef<[usize]>> AsRef<[usize]> for WitSel<B> { fn as_ref(&self) -> &[usize] { self.bits.as_ref() } }
impl<B: AsRef<[usize]>> SelectUnchecked for WitSel<B> {
    unsafe fn select_unchecked(&self, rank: usize) -> usize {
        let w = self.bits.as_ref();
        let p: usize = kani::any();
        kani::assume(p < self.len);
        let wi = p / 64;
        kani::assume((w[wi] >> (p % 64)) & 1 == 1);
        let mut before = (w[wi] & lowmask(p % 64)).count_ones() as usize;
        let mut i = 0; while i < w.len() { if i < wi { before += w[i].count_ones() as usize; } i += 1; }
        kani::assume(before == rank);
        p
    }
}
impl<B: AsRef<[usize]>> SelectZeroUnchecked for WitSel<B> {
    unsafe fn select_zero_unchecked(&self, rank: usize) -> usize {
        let w = self.bits.as_ref();
        // selection precondition: rank < number of zeros among the first len bits
        let mut zeros = 0usize; let mut i = 0;
        while i < w.len() { let lo = i * 64; if lo < self.len { let k = if self.len - lo >= 64 { 64 } else { self.len - lo }; zeros += (!w[i] & lowmask(k)).count_ones() as usize; } i += 1; }
        assert!(rank < zeros, "select_zero precondition violated");
        let p: usize = kani::any();
        kani::assume(p < self.len);
        let wi = p / 64;
        kani::assume((!w[wi] >> (p % 64)) & 1 == 1);
        let mut before = (!w[wi] & lowmask(p % 64)).count_ones() as usize;
        let mut i = 0; while i < w.len() { if i < wi { before += (!w[i]).count_ones() as usize; } i += 1; }
        kani::assume(before == rank);
        p
    }
}

// native-recorded log2: n=3,u=40 -> 40/3 = 13.33 -> log2 = 3.73 ; n=3,u=7 -> 1.22
fn log2_tab(x: f64) -> f64 {
    if x == 40.0f64 / 3.0f64 { 3.736965594166206 }
    else if x == 7.0f64 / 3.0f64 { 1.222392421336448 }
    else if x == f64::INFINITY { f64::INFINITY }
    else if x == 18446744073709551616.0f64 { 64.0 }
    else if x == 10.0f64 / 4.0f64 { 1.3219280948873624 }
    else { kani::assume(false); 0.0 }
}

macro_rules! ef_probe {
    ($name:ident, $n:expr, $u:expr) => {
        #[cfg(kani)]
        #[kani::proof]
        #[kani::unwind(8)]
        #[kani::stub(f64::log2, log2_tab)]
        fn $name() {
            const N: usize = $n; const U: usize = $u;
            let x: [usize; N] = kani::any();
            let mut k = 0; while k + 1 < N { kani::assume(x[k] <= x[k + 1]); k += 1; }
            kani::assume(x[N - 1] <= U);
            let mut b = EliasFanoBuilder::new(N, U);
            let mut k = 0; while k < N { b.push(x[k]); k += 1; }
            let ef = b.build();
            let ef = unsafe { ef.map_high_bits(|h| { let len = h.len(); WitSel { bits: h, len } }) };
            let i: usize = kani::any(); kani::assume(i < N);
            assert_eq!(ef.get(i), x[i]);
            let q: usize = kani::any();
            let s = ef.succ(q);
            let mut exp: Option<usize> = None;
            let mut k = N; while k > 0 { k -= 1; if x[k] >= q { exp = Some(x[k]); } }
            match (s, exp) { (None, None) => {}, (Some((j, v)), Some(e)) => { assert!(v == e && j < N && x[j] == v); }, _ => { assert!(false); } }
            let q2: usize = kani::any();
            kani::assume(q2 <= U);
            let p = ef.pred(q2);
            let mut expp: Option<usize> = None;
            let mut k = 0; while k < N { if x[k] <= q2 { expp = Some(x[k]); } k += 1; }
            match (p, expp) { (None, None) => {}, (Some((j, v)), Some(e)) => { assert!(v == e && j < N && x[j] == v); }, _ => { assert!(false); } }
            std::mem::forget(ef);
        }
    };
}
ef_probe!(p2b_ef_n3_u40, 3, 40);
ef_probe!(p2b_ef_n3_u7, 3, 7);

#[cfg(kani)]
#[kani::proof]
#[kani::unwind(4)]
#[kani::stub(f64::log2, log2_tab)]
fn p2c_ef_empty_pos_u() {
    let b = EliasFanoBuilder::new(0, 5);
    let ef = b.build();
    assert!(ef.len() == 0);
    std::mem::forget(ef);
}

#[cfg(kani)]
#[kani::proof]
#[kani::unwind(4)]
#[kani::stub(f64::log2, log2_tab)]
fn p2c_ef_max_u() {
    let x: usize = kani::any();
    let mut b = EliasFanoBuilder::new(1, usize::MAX);
    b.push(x);
    let ef = b.build();
    assert!(ef.len() == 1);
    std::mem::forget(ef);
}

// pred above u, doc example sequence shape: n=4,u=10
#[cfg(kani)]
#[kani::proof]
#[kani::unwind(8)]
#[kani::stub(f64::log2, log2_tab)]
fn p2c_ef_pred_above_u() {
    const N: usize = 4; const U: usize = 10;
    let x: [usize; N] = kani::any();
    let mut k = 0; while k + 1 < N { kani::assume(x[k] <= x[k + 1]); k += 1; }
    kani::assume(x[N - 1] <= U);
    let mut b = EliasFanoBuilder::new(N, U);
    let mut k = 0; while k < N { b.push(x[k]); k += 1; }
    let ef = b.build();
    let ef = unsafe { ef.map_high_bits(|h| { let len = h.len(); WitSel { bits: h, len } }) };
    let q: usize = kani::any();
    kani::assume(q > U);
    let p = ef.pred(q);
    assert!(p.is_some());
    std::mem::forget(ef);
}
