"""E2: symbolic execution of straight-line MIR (rustc -Zunpretty=mir) into SMT-LIB2 bit-vector terms.

The translator is deliberately small and *refuses* anything it does not know
(raises Unsupported -> the check is inconclusive), rather than skipping it.

Values:
  ('int', term, width, ubits)   unsigned/signed integers and bool (width 1); ubits = number of possibly
                                non-zero low bits (used to fold overflow flags of widened multiplications)
  ('arr', [values])             arrays
  ('tup', [values])             tuples and structs (fields by position)
  ('ref', value)                shared references
"""
import re


class Unsupported(Exception):
    pass


BITS = {'usize': 64, 'u64': 64, 'u32': 32, 'u128': 128, 'u8': 8, 'u16': 16, 'i32': 32, 'i64': 64, 'isize': 64, 'bool': 1}


def const(val, w):
    return '(_ bv%d %d)' % (val % (1 << w), w)


def mk_int(term, w, ub=None):
    return ('int', term, w, w if ub is None else min(w, ub))


class Mir:
    def __init__(self, text):
        self.text = text
        self.fns = {}
        for m in re.finditer(r'^fn (.*?)\((.*?)\) -> (.*?) \{\n(.*?)\n\}\n', text, re.S | re.M):
            name, params, ret, body = m.group(1), m.group(2), m.group(3), m.group(4)
            self.fns.setdefault(name, []).append((params, ret, body))

    def find(self, name, pred=None):
        c = self.fns.get(name, [])
        if pred:
            c = [x for x in c if pred(x)]
        if len(c) != 1:
            raise Unsupported('function %r: %d candidates' % (name, len(c)))
        return c[0]

    def resolve_call(self, callee):
        """callee text as in MIR -> (name, (params, ret, body))"""
        callee = callee.strip()
        m = re.match(r'^<(.*) as (.*?)>::(\w+)$', callee)
        if m:
            ty, trait, method = m.group(1).strip(), m.group(2).strip(), m.group(3)
            tyl = ty.split('::')[-1]
            sig = None
            mt = re.search(r'ShardEdge<(\[u64; \d\]), 3>', trait)
            if mt:
                sig = mt.group(1)
            cands = []
            for name, lst in self.fns.items():
                if not name.endswith('>::' + method):
                    continue
                for (params, ret, body) in lst:
                    ps = split_params(params)
                    if not ps:
                        continue
                    t0 = ps[0][1].lstrip('&').strip().split('::')[-1]
                    if t0 != tyl:
                        continue
                    if sig is not None:
                        # the impl is identified by the signature type: check the impl header in the name
                        cands.append((name, (params, ret, body)))
                    else:
                        cands.append((name, (params, ret, body)))
            if sig is not None and len(cands) > 1:
                # disambiguate impls of the same type for different signature types by looking at any method of
                # the same impl that takes the signature (shard / sort_key / edge)
                good = []
                for name, f in cands:
                    impl = name.rsplit('>::', 1)[0]
                    probe = self.fns.get(impl + '>::shard', [])
                    for (pp, rr, bb) in probe:
                        ps = split_params(pp)
                        if len(ps) > 1 and ps[1][1] == sig:
                            good.append((name, f))
                cands = good
            if len(cands) != 1:
                raise Unsupported('cannot resolve %r (%d candidates)' % (callee, len(cands)))
            return cands[0]
        if callee in self.fns and len(self.fns[callee]) == 1:
            return callee, self.fns[callee][0]
        raise Unsupported('unknown callee %r' % callee)


def split_params(params):
    out = []
    depth = 0
    cur = ''
    for ch in params:
        if ch in '[(<':
            depth += 1
        elif ch in '])>':
            depth -= 1
        if ch == ',' and depth == 0:
            out.append(cur)
            cur = ''
        else:
            cur += ch
    if cur.strip():
        out.append(cur)
    res = []
    for p in out:
        m = re.match(r'\s*(_\d+): (.*)$', p.strip(), re.S)
        if not m:
            raise Unsupported('param ' + p)
        res.append((m.group(1), m.group(2).strip()))
    return res


class Exec:
    """One symbolic execution; collects panic conditions (SMT bool terms) with their messages."""

    def __init__(self, mir, wrap=False, generalise=None):
        self.mir = mir
        self.wrap = wrap            # release semantics: checked ops wrap, overflow asserts are dropped by rustc already
        self.panics = []            # (cond_term, message, function)
        self.decls = []
        self.n = 0
        self.calls = []
        self.generalise = generalise or {}
        self.depth = 0

    def fresh(self, w, hint='g'):
        self.n += 1
        v = '%s%d' % (hint, self.n)
        self.decls.append('(declare-const %s (_ BitVec %d))' % (v, w))
        return v

    # ---- function execution ---------------------------------------------
    def call(self, fname, f, args):
        params, ret, body = f
        ps = split_params(params)
        if len(ps) != len(args):
            raise Unsupported('arity mismatch calling ' + fname)
        types = dict(ps)
        for m in re.finditer(r'let (?:mut )?(_\d+): ([^;]+);', body):
            types[m.group(1)] = m.group(2).strip()
        env = {}
        for (loc, ty), a in zip(ps, args):
            env[loc] = a
        blocks = dict((m.group(1), m.group(2)) for m in re.finditer(r'\n    (bb\d+): \{\n(.*?)\n    \}', '\n' + body, re.S))
        self.calls.append(fname)
        self.depth += 1
        if self.depth > 8:
            raise Unsupported('call depth')
        cur = 'bb0'
        steps = 0
        while True:
            steps += 1
            if steps > 500:
                raise Unsupported('too many blocks (loop?) in ' + fname)
            if cur not in blocks:
                raise Unsupported('missing block %s in %s' % (cur, fname))
            stmts = [s.strip() for s in blocks[cur].split('\n') if s.strip()]
            nxt = None
            for s in stmts:
                if s.startswith('StorageLive(') or s.startswith('StorageDead(') or s.startswith('nop') or s.startswith('//') or s.startswith('FakeRead(') or s.startswith('PlaceMention('):
                    continue
                if s.startswith('assert('):
                    m = re.match(r'assert\((!?)(?:move |copy )?(.*?), "(.*?)".*\) -> \[success: (bb\d+)', s)
                    if not m:
                        raise Unsupported('assert form: ' + s)
                    neg, cond, msg, succ = m.groups()
                    c = self.place(env, cond)
                    if c[0] != 'int' or c[2] != 1:
                        raise Unsupported('assert on non-bool')
                    bad = '(= %s #b0)' % c[1] if not neg else '(= %s #b1)' % c[1]
                    self.panics.append((bad, msg, fname))
                    nxt = succ
                    continue
                if s == 'return;':
                    self.depth -= 1
                    if '_0' not in env:
                        raise Unsupported('no return value in ' + fname)
                    return env['_0']
                m = re.match(r'goto -> (bb\d+);', s)
                if m:
                    nxt = m.group(1)
                    continue
                m = re.match(r'(_\d+) = (.*?)\((.*)\) -> \[return: (bb\d+)', s)
                if m and not re.match(r'^(Add|Sub|Mul|BitAnd|BitOr|BitXor|Shl|Shr|Lt|Le|Gt|Ge|Eq|Ne|AddWithOverflow|SubWithOverflow|MulWithOverflow|Div|Rem|Not|Neg)$', m.group(2)):
                    dst, callee, argtxt, ret_bb = m.groups()
                    argv = [self.operand(env, a) for a in split_top(argtxt)] if argtxt.strip() else []
                    env[dst] = self.do_call(callee, argv)
                    nxt = ret_bb
                    continue
                if s.startswith('switchInt('):
                    m = re.match(r'switchInt\((.*?)\) -> \[(.*)\];', s)
                    v = self.operand(env, m.group(1))
                    cm = re.match(r'\(_ bv(\d+) \d+\)$', v[1]) or re.match(r'#b([01])$', v[1])
                    if not cm:
                        raise Unsupported('switchInt on a symbolic value in ' + fname)
                    val = int(cm.group(1))
                    target = None
                    for part in m.group(2).split(', '):
                        k, bb = part.split(': ')
                        if k == 'otherwise':
                            target = target or bb
                        elif int(k) == val:
                            target = bb
                            break
                    nxt = target
                    continue
                m = re.match(r'(.*?) = (.*);$', s)
                if not m:
                    raise Unsupported('statement: ' + s)
                dst, rhs = m.group(1).strip(), m.group(2).strip()
                val = self.rvalue(env, rhs, types.get(dst))
                self.assign(env, dst, val)
            if nxt is None:
                raise Unsupported('block without terminator: %s %s' % (fname, cur))
            cur = nxt

    def assign(self, env, dst, val):
        if re.match(r'_\d+$', dst):
            env[dst] = val
            return
        m = re.match(r'\((_\d+)\.(\d+): [^)]*\)$', dst)
        if m:
            base = env.get(m.group(1))
            if base is None:
                base = ('tup', [])
            lst = list(base[1])
            k = int(m.group(2))
            while len(lst) <= k:
                lst.append(None)
            lst[k] = val
            env[m.group(1)] = ('tup', lst)
            return
        raise Unsupported('assignment to place ' + dst)

    def do_call(self, callee, argv):
        callee = callee.strip()
        m = re.match(r'core::num::<impl (u\d+|usize)>::rotate_right$', callee)
        if m:
            w = BITS[m.group(1)]
            a, b = argv
            bt = b[1]
            if b[2] < w:
                bt = '((_ zero_extend %d) %s)' % (w - b[2], b[1])
            elif b[2] > w:
                bt = '((_ extract %d 0) %s)' % (w - 1, b[1])
            key = 'rotate_right'
            if key in self.generalise and self.generalise[key](a, b):
                return mk_int(self.fresh(w, 'rot'), w)
            r = '(bvurem %s %s)' % (bt, const(w, w))
            t = '(bvor (bvlshr %s %s) (bvshl %s (bvsub %s %s)))' % (a[1], r, a[1], const(w, w), r)
            return mk_int(t, w)
        m = re.match(r'core::num::<impl (u\d+|usize)>::rotate_left$', callee)
        if m:
            w = BITS[m.group(1)]
            a, b = argv
            bt = b[1]
            if b[2] < w:
                bt = '((_ zero_extend %d) %s)' % (w - b[2], b[1])
            elif b[2] > w:
                bt = '((_ extract %d 0) %s)' % (w - 1, b[1])
            r = '(bvurem %s %s)' % (bt, const(w, w))
            t = '(bvor (bvshl %s %s) (bvlshr %s (bvsub %s %s)))' % (a[1], r, a[1], const(w, w), r)
            return mk_int(t, w)
        name, f = self.mir.resolve_call(callee)
        short = name.rsplit('>::', 1)[-1]
        if short in self.generalise and self.generalise[short] is not None:
            # the result of this call is replaced by one fresh variable (the same for every call), constrained
            # only by what the caller of the translator states: a sound strengthening of any obligation that
            # uses the same variable on both sides
            key = '_memo_' + short
            if not hasattr(self, key):
                w, constraint = self.generalise[short]
                v = self.fresh(w, short)
                if constraint:
                    self.decls.append('(assert %s)' % (constraint % v))
                setattr(self, key, mk_int(v, w))
            return getattr(self, key)
        return self.call(name, f, argv)

    # ---- operands, places, rvalues -----------------------------------------
    def operand(self, env, tok):
        tok = tok.strip()
        m = re.match(r'(?:copy|move) (.*)$', tok)
        if m:
            return self.place(env, m.group(1))
        m = re.match(r'const (-?\d+)_(\w+)$', tok)
        if m:
            w = BITS.get(m.group(2))
            if w is None:
                raise Unsupported('const type ' + tok)
            v = int(m.group(1))
            return mk_int(const(v, w), w, max(1, (v % (1 << w)).bit_length()))
        m = re.match(r'const (true|false)$', tok)
        if m:
            return mk_int('#b1' if m.group(1) == 'true' else '#b0', 1)
        raise Unsupported('operand ' + tok)

    def place(self, env, p):
        p = p.strip()
        if re.match(r'_\d+$', p):
            if p not in env:
                raise Unsupported('read of unset local ' + p)
            return env[p]
        m = re.match(r'\(\*(_\d+)\)$', p)
        if m:
            v = env[m.group(1)]
            if v[0] != 'ref':
                raise Unsupported('deref of non-ref')
            return v[1]
        # field projection: (BASE.k: type)
        m = re.match(r'\((.*)\.(\d+): [^()]*(?:\([^()]*\))?[^()]*\)$', p)
        if m:
            base = self.place(env, m.group(1))
            if base[0] != 'tup':
                raise Unsupported('field of non-struct: ' + p)
            v = base[1][int(m.group(2))]
            if v is None:
                raise Unsupported('unset field ' + p)
            return v
        m = re.match(r'(.*)\[(_\d+)\]$', p)
        if m:
            arr = self.place(env, m.group(1))
            idx = env[m.group(2)]
            cm = re.match(r'\(_ bv(\d+) 64\)$', idx[1])
            if arr[0] != 'arr' or not cm:
                raise Unsupported('index: ' + p)
            return arr[1][int(cm.group(1))]
        m = re.match(r'(.*)\[(\d+) of \d+\]$', p)
        if m:
            arr = self.place(env, m.group(1))
            return arr[1][int(m.group(2))]
        raise Unsupported('place ' + p)

    def rvalue(self, env, rhs, dst_type):
        mm = re.match(r'(\w+)\((.*)\)$', rhs)
        if mm and mm.group(1) in ('Add', 'Sub', 'Mul', 'BitAnd', 'BitOr', 'BitXor', 'Shl', 'Shr', 'Lt', 'Le', 'Gt', 'Ge', 'Eq', 'Ne',
                                  'AddWithOverflow', 'SubWithOverflow', 'MulWithOverflow', 'Div', 'Rem'):
            op = mm.group(1)
            xs = split_top(mm.group(2))
            a, b = self.operand(env, xs[0]), self.operand(env, xs[1])
            return self.binop(op, a, b)
        if mm and mm.group(1) == 'Not':
            a = self.operand(env, mm.group(2))
            return mk_int('(bvnot %s)' % a[1], a[2])
        mm = re.match(r'(.*) as (\w+) \(IntToInt\)$', rhs)
        if mm:
            a = self.operand(env, mm.group(1))
            tw = BITS.get(mm.group(2))
            if tw is None:
                raise Unsupported('cast to ' + mm.group(2))
            if tw > a[2]:
                t = '((_ zero_extend %d) %s)' % (tw - a[2], a[1])
            elif tw < a[2]:
                t = '((_ extract %d 0) %s)' % (tw - 1, a[1])
            else:
                t = a[1]
            return mk_int(t, tw, a[3])
        mm = re.match(r'\[(.*)\]$', rhs)
        if mm:
            return ('arr', [self.operand(env, x) for x in split_top(mm.group(1))])
        mm = re.match(r'&(?:mut )?(.*)$', rhs)
        if mm:
            return ('ref', self.place(env, mm.group(1)))
        mm = re.match(r'\((.*)\)$', rhs)
        if mm and (rhs.startswith('(copy') or rhs.startswith('(move') or rhs.startswith('(const')):
            return ('tup', [self.operand(env, x) for x in split_top(mm.group(1))])
        if rhs.startswith('copy ') or rhs.startswith('move ') or rhs.startswith('const '):
            return self.operand(env, rhs)
        raise Unsupported('rvalue ' + rhs)

    def binop(self, op, a, b):
        if a[0] != 'int' or b[0] != 'int':
            raise Unsupported('binop on non-int')
        aw = a[2]
        ua, ub = a[3], b[3]
        if op in ('Shl', 'Shr'):
            bt = b[1]
            if b[2] < aw:
                bt = '((_ zero_extend %d) %s)' % (aw - b[2], b[1])
            elif b[2] > aw:
                bt = '((_ extract %d 0) %s)' % (aw - 1, b[1])
            if self.wrap:
                bt = '(bvurem %s %s)' % (bt, const(aw, aw))
            return mk_int('(%s %s %s)' % ('bvshl' if op == 'Shl' else 'bvlshr', a[1], bt), aw, aw if op == 'Shl' else ua)
        if b[2] != aw:
            raise Unsupported('width mismatch in ' + op)
        if op in ('Add', 'Sub', 'Mul', 'BitAnd', 'BitOr', 'BitXor', 'Div', 'Rem'):
            f = {'Add': 'bvadd', 'Sub': 'bvsub', 'Mul': 'bvmul', 'BitAnd': 'bvand', 'BitOr': 'bvor', 'BitXor': 'bvxor', 'Div': 'bvudiv', 'Rem': 'bvurem'}[op]
            ubits = {'BitAnd': min(ua, ub), 'BitOr': max(ua, ub), 'BitXor': max(ua, ub), 'Div': ua, 'Rem': ub}.get(op, aw)
            return mk_int('(%s %s %s)' % (f, a[1], b[1]), aw, ubits)
        if op in ('Lt', 'Le', 'Gt', 'Ge', 'Eq', 'Ne'):
            f = {'Lt': 'bvult', 'Le': 'bvule', 'Gt': 'bvugt', 'Ge': 'bvuge', 'Eq': '=', 'Ne': 'distinct'}[op]
            return mk_int('(ite (%s %s %s) #b1 #b0)' % (f, a[1], b[1]), 1)
        base = op[:3]
        if base == 'Add':
            wide = '(bvadd ((_ zero_extend 1) %s) ((_ zero_extend 1) %s))' % (a[1], b[1])
            ov = '((_ extract %d %d) %s)' % (aw, aw, wide)
            res = mk_int('(bvadd %s %s)' % (a[1], b[1]), aw, min(aw, max(ua, ub) + 1))
            if max(ua, ub) + 1 <= aw:
                ov = '#b0'
        elif base == 'Sub':
            ov = '(ite (bvult %s %s) #b1 #b0)' % (a[1], b[1])
            res = mk_int('(bvsub %s %s)' % (a[1], b[1]), aw)
        else:
            if ua + ub <= aw:
                ov = '#b0'   # operands are zero-extensions of narrower values: the product cannot overflow
            else:
                ov = '(ite (bvumul_noovfl %s %s) #b0 #b1)' % (a[1], b[1])
            res = mk_int('(bvmul %s %s)' % (a[1], b[1]), aw, min(aw, ua + ub))
        return ('tup', [res, mk_int(ov, 1)])


def split_top(txt):
    out = []
    depth = 0
    cur = ''
    for ch in txt:
        if ch in '[(<':
            depth += 1
        elif ch in '])>':
            depth -= 1
        if ch == ',' and depth == 0:
            out.append(cur.strip())
            cur = ''
        else:
            cur += ch
    if cur.strip():
        out.append(cur.strip())
    return out
