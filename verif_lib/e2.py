"""E2 driver: C16 (edges of every signature: distinct, in range, same at build and query time) decided on
the MIR of /repo translated to SMT-LIB2 (verif_lib/mirsmt.py), z3 as the deciding solver, cvc5 as cross-check."""
import concurrent.futures
import json
import os
import re
import shutil
import subprocess
import sys
import tempfile
import time

from . import mirsmt
from .mirsmt import Mir, Exec, Unsupported, mk_int, const

ROOT = os.path.dirname(os.path.dirname(os.path.abspath(__file__)))
CACHE = os.path.join(ROOT, ".cache")


def dump_mir(overflow_checks, features, log):
    """MIR of a scratch copy of /repo's working tree (outside /repo and /verif), removed afterwards."""
    scratch = tempfile.mkdtemp(prefix="verif-e2-")
    try:
        subprocess.check_call(["rsync", "-a", "--exclude", "target", "--exclude", ".git", "/repo/", scratch + "/"])
        env = dict(os.environ)
        env["CARGO_NET_OFFLINE"] = "true"
        env["CARGO_TARGET_DIR"] = os.path.join(CACHE, "e2-target")
        env.pop("RUSTFLAGS", None)
        cmd = ["cargo", "+nightly", "rustc", "--offline", "--lib", "--no-default-features", "--features", features, "--",
               "-Zunpretty=mir", "-C", "debug-assertions=off", "-C", "overflow-checks=" + ("on" if overflow_checks else "off")]
        t0 = time.time()
        p = subprocess.run(cmd, cwd=scratch, env=env, stdout=subprocess.PIPE, stderr=subprocess.PIPE)
        log("[E2] MIR dump (overflow-checks=%s, features=%s): rc=%d %.0fs %d bytes" % (
            "on" if overflow_checks else "off", features, p.returncode, time.time() - t0, len(p.stdout)))
        if p.returncode != 0 or len(p.stdout) < 100000:
            sys.stderr.write(p.stderr.decode(errors="replace")[-3000:])
            return None
        return p.stdout.decode(errors="replace")
    finally:
        shutil.rmtree(scratch, ignore_errors=True)


def V(name, w):
    return mk_int(name, w)


IMPLS = {
    # name: (type path in MIR, signature type, words in signature, self struct builder, sharded, vertex bits for the invariant)
    "FuseLge3Shards": dict(ty="fuse::FuseLge3Shards", sig="[u64; 2]", nsig=2, sharded=True, fields="sbs,log2,l", inv="shards"),
    "FuseLge3FullSigs": dict(ty="FuseLge3FullSigs", sig="[u64; 2]", nsig=2, sharded=True, fields="(sbs,log2,l)", inv="shards"),
    "FuseLge3NoShards_2": dict(ty="FuseLge3NoShards", sig="[u64; 2]", nsig=2, sharded=False, fields="log2,l", inv="noshards"),
    "FuseLge3NoShards_1": dict(ty="FuseLge3NoShards", sig="[u64; 1]", nsig=1, sharded=False, fields="log2,l", inv="noshards"),
}

DECLS = ["(declare-const sbs (_ BitVec 32))", "(declare-const log2 (_ BitVec 32))", "(declare-const l (_ BitVec 32))",
         "(declare-const sig0 (_ BitVec 64))", "(declare-const sig1 (_ BitVec 64))"]


def self_value(impl):
    sbs, log2, l = V("sbs", 32), V("log2", 32), V("l", 32)
    f = IMPLS[impl]["fields"]
    if f == "sbs,log2,l":
        st = ("tup", [sbs, log2, l])
    elif f == "(sbs,log2,l)":
        st = ("tup", [("tup", [sbs, log2, l])])
    else:
        st = ("tup", [log2, l])
    return ("ref", st)


def invariant(impl):
    """The parameter space: what set_up_shards / set_up_graphs establish (by assertion or by construction)
    before returning; see DESIGN.md §2 C16."""
    inv = ["(assert (bvuge l #x00000001))"]
    l64 = "((_ zero_extend 32) l)"
    s64 = "((_ zero_extend 32) log2)"
    if IMPLS[impl]["inv"] == "shards":
        inv += ["(assert (bvule log2 #x0000001f))",
                "(assert (bvule (bvshl (bvadd %s #x0000000000000002) %s) #x0000000100000000))" % (l64, s64),
                "(assert (bvule sbs #x0000003f))",
                # shard_high_bits = 63 - sbs <= 32
                "(assert (bvuge sbs #x0000001f))"]
    else:
        inv += ["(assert (bvule log2 #x00000012))", "(assert (= sbs #x0000003f))"]
    return inv


def build_terms(mir, impl, wrap, generalise=None):
    I = IMPLS[impl]
    ex = Exec(mir, wrap=wrap, generalise=generalise)
    slf = self_value(impl)
    sig = ("arr", [V("sig0", 64), V("sig1", 64)][: I["nsig"]])
    tr = "<%s as shard_edge::ShardEdge<%s, 3>>::" % (I["ty"], I["sig"])

    def call(m, *args):
        return ex.do_call(tr + m, [slf] + list(args))
    out = {}
    out["edge"] = call("edge", sig)
    n_edge_panics = len(ex.panics)
    out["local_sig"] = call("local_sig", sig)
    out["local_edge"] = call("local_edge", out["local_sig"])
    out["shard"] = call("shard", sig)
    out["num_vertices"] = call("num_vertices")
    out["sort_key"] = call("sort_key", sig)
    out["num_sort_keys"] = call("num_sort_keys")
    out["shard_high_bits"] = call("shard_high_bits")
    return ex, out


def obligations(impl, ex, t):
    I = IMPLS[impl]
    v = [x[1] for x in t["edge"][1]]
    z = [x[1] for x in t["local_edge"][1]]
    nv = t["num_vertices"][1]
    sh = t["shard"][1]
    shb = t["shard_high_bits"][1]
    obs = []
    for i, (cond, msg, fn) in enumerate(ex.panics):
        obs.append(("nopanic_%d" % i, "(not %s)" % cond, "no panic: %s in %s" % (msg[:60], fn.split('>::')[-1])))
    obs.append(("distinct", "(and (distinct %s %s) (distinct %s %s) (distinct %s %s))" % (z[0], z[1], z[1], z[2], z[0], z[2]), "local vertices pairwise distinct"))
    for k in range(3):
        obs.append(("local_range_%d" % k, "(bvult %s %s)" % (z[k], nv), "local vertex %d < num_vertices()" % k))
    off = "(bvmul %s %s)" % (sh, nv)
    for k in range(3):
        obs.append(("shift_%d" % k, "(= %s (bvadd %s %s))" % (v[k], z[k], off), "edge(sig)[%d] = local_edge(local_sig(sig))[%d] + shard(sig) * num_vertices()" % (k, k)))
    obs.append(("sort_key", "(bvult %s %s)" % (t["sort_key"][1], t["num_sort_keys"][1]), "sort_key(sig) < num_sort_keys()"))
    # shard = high bits used by the signature store: rotate_left(sig[0], shb) & ((1 << shb) - 1)
    shb64 = "((_ zero_extend 32) %s)" % shb
    hb = "(bvand (bvor (bvshl sig0 %s) (bvlshr sig0 (bvsub (_ bv64 64) %s))) (bvsub (bvshl (_ bv1 64) %s) (_ bv1 64)))" % (shb64, shb64, shb64)
    obs.append(("shard_high_bits", "(= %s (ite (= %s (_ bv0 64)) (_ bv0 64) %s))" % (sh, shb64, hb), "shard(sig) = Sig::high_bits(sig, shard_high_bits())"))
    obs.append(("shard_range", "(bvult %s (bvshl (_ bv1 64) %s))" % (sh, shb64), "shard(sig) < num_shards()"))
    return obs


def run_solver(cmd, text, timeout):
    t0 = time.time()
    try:
        p = subprocess.run(cmd, input=text.encode(), stdout=subprocess.PIPE, stderr=subprocess.STDOUT, timeout=timeout)
        out = p.stdout.decode(errors="replace").strip()
    except subprocess.TimeoutExpired:
        return "timeout", time.time() - t0, ""
    if "(error" in out or "error" in out.split("\n")[0].lower():
        return "error", time.time() - t0, out[:300]
    first = out.split("\n")[0].strip() if out else ""
    if first in ("sat", "unsat", "unknown"):
        return first, time.time() - t0, out
    return "error", time.time() - t0, out[:300]


def query_text(impl, ex, ob, seg, extra=(), model=False):
    q = ["(set-logic ALL)"] + DECLS + ex.decls + invariant(impl)
    if seg is not None:
        q.append("(assert (= log2 (_ bv%d 32)))" % seg)
    q += list(extra)
    q.append("(assert (not %s))" % ob)
    q.append("(check-sat)")
    if model:
        q.append("(get-value (sbs log2 l sig0 sig1))")
    return "\n".join(q) + "\n"


def parse_model(out):
    m = {}
    for name, val in re.findall(r"\((\w+) (#x[0-9a-f]+|#b[01]+|\(_ bv\d+ \d+\))\)", out):
        if val.startswith("#x"):
            m[name] = int(val[2:], 16)
        elif val.startswith("#b"):
            m[name] = int(val[2:], 2)
        else:
            m[name] = int(re.match(r"\(_ bv(\d+)", val).group(1))
    return m


def write_case(pid, impl, model, obname, desc):
    cases = os.path.join(ROOT, "replay", "cases")
    os.makedirs(cases, exist_ok=True)
    path = os.path.join(cases, "c16__%s__%s.rs" % (impl, obname))
    I = IMPLS[impl]
    if I["fields"] == "log2,l":
        ctor = "sux::func::shard_edge::FuseLge3NoShards::verif_from_parts(%d, %d)" % (model["log2"], model["l"])
    elif impl == "FuseLge3Shards":
        ctor = "sux::func::shard_edge::FuseLge3Shards::verif_from_parts(%d, %d, %d)" % (model["sbs"], model["log2"], model["l"])
    else:
        ctor = "sux::func::shard_edge::FuseLge3FullSigs::verif_from_parts(%d, %d, %d)" % (model["sbs"], model["log2"], model["l"])
    sig = "[%s]" % ", ".join("0x%x_u64" % model.get("sig%d" % k, 0) for k in range(I["nsig"]))
    with open(path, "w") as f:
        f.write("// verif-case: property=%s flavour=da feature=c16 harness=e2::%s::%s safety_only=0\n" % (pid, impl, obname))
        f.write("// SMT model of a violated obligation (%s); replayed against the real ShardEdge methods.\n" % desc)
        f.write("#[test]\nfn kani_concrete_playback_c16_%s_%s() {\n" % (impl.lower(), obname))
        f.write("    let se = %s;\n    let sig = %s;\n" % (ctor, sig))
        f.write("    crate::c16_native::check_edge(&se, sig);\n}\n")
    return path


def check(pid, tier, seed, args, PROPS, write_evidence, log, run_case):
    t0 = time.time()
    P = PROPS[pid]
    rows = []
    inconclusive = []
    violations = []
    profiles = [True] if tier == "quick" else [True, False]
    all_segs = list(range(0, 32))
    quick_segs = sorted(set([0, 1, 9, 18, 30, 31, 2 + (seed * 7) % 27]))
    budget = 120 if tier == "quick" else 600
    jobs = args.jobs or 16
    logf = os.path.join(CACHE, "log-%s-%s.txt" % (pid, tier))
    open(logf, "w").close()
    n_queries = 0
    solver_time = 0.0
    crosschecks = []
    for overflow_checks in profiles:
        text = dump_mir(overflow_checks, "sux_verif", log)
        if text is None:
            inconclusive.append("MIR dump failed")
            continue
        mir = Mir(text)
        for impl in IMPLS:
            try:
                ex, terms = build_terms(mir, impl, wrap=not overflow_checks)
                # generalised variant: rotate_right results replaced by fresh variables (only strengthens the
                # obligations where the value is irrelevant; a sat answer is re-checked without it)
                exg, termsg = build_terms(mir, impl, wrap=not overflow_checks, generalise={"rotate_right": lambda a, b: True})
                # second generalisation, for the "global = shifted local" obligations: shard(sig) becomes a fresh
                # variable below 2^32 (shard(sig) < 2^shard_high_bits <= 2^32 is the separate obligation shard_range)
                exs, termss = build_terms(mir, impl, wrap=not overflow_checks,
                                          generalise={"shard": (64, "(bvult %s #x0000000100000000)")})
            except Unsupported as e:
                inconclusive.append("%s: MIR construct not supported by the translator: %s" % (impl, e))
                log("[E2] %s: unsupported: %s" % (impl, e))
                continue
            obs = obligations(impl, ex, terms)
            obsg = dict((o[0], o) for o in obligations(impl, exg, termsg))
            obss = dict((o[0], o) for o in obligations(impl, exs, termss))
            segs = quick_segs if tier == "quick" else all_segs
            if IMPLS[impl]["inv"] == "noshards":
                segs = [s for s in segs if s <= 18] or [0, 9, 18]
            tasks = []
            for (name, ob, desc) in obs:
                # obligations that do not depend on the edge arithmetic are decided once, for all segment sizes
                per_seg = name.startswith(("distinct", "local_range", "shift", "nopanic"))
                for seg in (segs if per_seg else [None]):
                    tasks.append((name, ob, desc, seg))

            def work(task):
                name, ob, desc, seg = task
                use_g = name.startswith(("local_range", "distinct", "sort_key")) and name in obsg and exg.decls
                e_, ob_ = (exg, obsg[name][1]) if use_g else (ex, ob)
                if name.startswith("shift") and IMPLS[impl]["sharded"]:
                    use_g = True
                    e_, ob_ = exs, obss[name][1]
                q = query_text(impl, e_, ob_, seg)
                # portfolio: z3 5.1 (z3-new) first, z3 4.8.12 if it does not answer
                r, dt, out = run_solver(["z3-new", "-in", "-T:%d" % budget], q, budget + 10)
                if r not in ("sat", "unsat"):
                    r, dt2, out = run_solver(["/usr/bin/z3", "-in", "-T:%d" % budget], q, budget + 10)
                    dt += dt2
                if r == "sat":
                    # re-check without the generalisation and ask for the model
                    qm = query_text(impl, ex, ob, seg, model=True)
                    r, dt2, out = run_solver(["z3-new", "-in", "-T:%d" % budget], qm, budget + 10)
                    dt += dt2
                return task, r, dt, out, q
            with concurrent.futures.ThreadPoolExecutor(max_workers=jobs) as pool:
                results = list(pool.map(work, tasks))
            first_q = None
            for (task, r, dt, out, q) in results:
                name, ob, desc, seg = task
                n_queries += 1
                solver_time += dt
                hname = "e2::%s::%s::%s::seg%s" % ("dev" if overflow_checks else "release", impl, name, "all" if seg is None else seg)
                row = {"harness": hname, "flavour": "e2", "safety_only": False, "time_s": round(dt, 2), "n_checks": 1,
                       "n_reachable": 1, "covers": [], "solver_s": round(dt, 2), "reach_keys": [hname], "detail": desc}
                if r == "unsat":
                    row["verdict"] = "verified"
                    if first_q is None and name.startswith("local_range"):
                        first_q = (hname, q)
                elif r == "sat":
                    model = parse_model(out)
                    row["verdict"] = "violation"
                    row["detail"] = desc + " | model " + json.dumps(model)
                    path = write_case(pid, impl, model, name, desc)
                    ok, summ = run_case(path, logf)
                    row["replay"] = {"path": path, "dev": summ}
                    if ok:
                        violations.append((hname, path, desc, summ))
                    else:
                        row["verdict"] = "inconclusive"
                        row["detail"] += " | model does not replay against the real code: " + summ
                        inconclusive.append(hname + ": SMT model does not replay (" + summ + ")")
                else:
                    row["verdict"] = "inconclusive"
                    row["detail"] = desc + " | solver: " + r + " " + out[:80]
                    inconclusive.append(hname + ": " + r)
                rows.append(row)
            # cross-check one encoding per implementation and profile on cvc5
            if first_q is not None:
                hname, q = first_q
                q2 = q
                r, dt, out = run_solver(["cvc5", "--lang", "smt2", "--tlimit=%d" % (60 * 1000)], q2, 70)
                r4, dt4, out4 = run_solver(["/usr/bin/z3", "-in", "-T:60"], q2, 70)
                crosschecks.append({"query": hname, "z3-5.1": "unsat", "cvc5": r, "cvc5_s": round(dt, 1), "z3-4.8.12": r4, "z3-4.8.12_s": round(dt4, 1)})
                if r == "sat" or r4 == "sat":
                    inconclusive.append(hname + ": solvers disagree")
            nv = sum(1 for r in rows if r["verdict"] == "verified")
            log("[E2] %s (%s): %d obligations so far verified, %d inconclusive, %d violations" % (
                impl, "dev" if overflow_checks else "release", nv, len(inconclusive), len(violations)))
    for r in rows:
        if r["verdict"] != "verified":
            log("  %-12s %-70s %6.1fs %s" % (r["verdict"], r["harness"], r["time_s"], r["detail"][:160]))
    extra = {"obligations": len(rows), "discharged": sum(1 for r in rows if r["verdict"] == "verified"),
             "queries": n_queries, "solver": "z3 5.1 (z3-new), fallback z3 4.8.12 (/usr/bin/z3); cross-checks on cvc5 1.0 and z3 4.8.12", "cross_checks": crosschecks,
             "segment_sizes": "quick: " + str(quick_segs) if tier == "quick" else "all 0..=31 (0..=18 for the unsharded logics)",
             "profiles": ["overflow-checks=on"] + (["overflow-checks=off"] if tier != "quick" else []),
             "solver_time_s": round(solver_time, 1)}
    write_evidence(pid, tier, seed, t0, rows, extra, len(violations), inconclusive)
    if violations:
        for h, p, d, s in violations:
            log("VIOLATION property=%s replay=%s" % (pid, p))
            log("   %s: %s | %s" % (h, d, s))
        return 1
    if inconclusive or not rows:
        for i in inconclusive[:20]:
            log("INCONCLUSIVE property=%s %s" % (pid, i))
        return 2
    log("[%s] %s: %d obligations discharged (%d solver queries, %.0fs solver time), %.0fs" % (
        pid, tier, len(rows), n_queries, solver_time, time.time() - t0))
    return 0
