"""Per-property configuration of the driver (what is encoded, bounds, stubs)."""

import os
MEM_GB = int(os.environ.get("VERIF_MEM_GB", "16"))  # address-space cap per process (cbmc), DESIGN.md §1.5

COMMON_ASSUMPTIONS = [
    "Kani 0.68 / CBMC 6.11 / CaDiCaL are sound for the compiled MIR of /repo (dev profile: overflow checks on)",
    "unwinding assertions on: a loop bound that is too small is reported as inconclusive, never as a pass",
    "behaviour that exists only with wrapping arithmetic of the release profile (len*width >= 2^64) is outside the claim",
    "usize = 64 bit (x86_64 target)",
]

PROPS = {
    "C05": {
        "engine": "kani", "module": "c05", "feature": "c05", "jobs": 12,
        "functions": [
            "BitFieldVec::{new,new_unaligned,with_capacity,from_raw_parts,into_raw_parts,push,pop,resize,clear,set_len,"
            "from_slice,iter,iter_from,addr_of,mask,bit_width,len}", "BitFieldSlice::{get,get_unchecked}",
            "BitFieldSliceMut::{set,set_unchecked}", "Extend", "PartialEq", "BitFieldVecIterator",
            "BitFieldVectorUncheckedIterator", "BitFieldVectorReverseUncheckedIterator",
            "From conversions Vec<->Box<->atomic, &[W], &mut [W]", "transmute_vec", "transmute_boxed_slice",
            "AtomicBitFieldVec::{from_raw_parts,get_atomic,set_atomic,mask}", "bit_field_vec! forms",
            "blanket BitFieldSlice impls for [W]",
        ],
        "bounds": "backing store 4 words (u8,u16) / 3 words (u32,u64,usize,u128), all words symbolic; width symbolic 0..=W::BITS; "
                  "len symbolic with len*width <= capacity; one operation per harness from an arbitrary valid pre-state "
                  "(inductive step); iterators: first 3 items from a symbolic start; resize grows by <= 2 elements per step; "
                  "quick: u8 and usize; thorough: all six word types",
        "outside": "rejected calls leaving contents unchanged (no unwinding in Kani); len*width >= 2^64; more than 4 backing words; "
                   "iterator items beyond the first three from a given start",
        "assumptions": ["from_raw_parts pre-states satisfy the documented contract len*width <= bits of the backend",
                    "from_slice harnesses: alloc::fmt::format and Backtrace::capture are stubbed (error message irrelevant; 25 min -> 20 s)"],
    },
    "C10": {
        "engine": "kani", "module": "c10", "feature": "c10", "jobs": 12,
        "functions": ["BitFieldVec::copy", "BitFieldSliceMut::{copy (default),apply_in_place,apply_in_place_unchecked,reset,try_chunks_mut}",
                      "ChunksMut::next", "BitFieldVec::{get_unaligned,new_unaligned}", "AtomicBitFieldVec::reset_atomic",
                      "BitVec::{fill,flip,reset,count_ones}", "AtomicBitVec::{fill,flip,reset}"],
        "bounds": "source/destination arrays of 4 (u8,u16) or 3 words, all symbolic; width symbolic 1..=W::BITS; from,to,len symbolic",
        "outside": "rayon variants (par_*): thread pool, not encodable, not compiled in the harness build",
        "assumptions": [],
    },
}

HOOK_COMMITS = ["c5d3f11", "3a80667", "5bf6e86"]

PROPS["C06"] = {
    "engine": "kani", "module": "c06", "feature": "c06", "jobs": 12,
    "functions": ["BitVec::{new,with_value,with_capacity,capacity,from_raw_parts,into_raw_parts,push,pop,resize,get,set,"
                  "iter,iter_ones,iter_zeros,to_owned,len}", "Extend", "FromIterator", "bit_vec! forms", "BitCount::{count_ones,count_zeros}",
                  "PartialEq", "Index", "BitIterator", "OnesIterator", "ZerosIterator", "From conversions Vec<->Box<->atomic, &[usize]",
                  "AtomicBitVec::{new,with_value,from_raw_parts,get,set,swap,count_ones,iter}", "AtomicBitIterator"],
    "bounds": "3 fully symbolic backing words, len symbolic 0..=192 (every stale-tail state inside); one operation per harness; "
              "iter: first 4 items (all items for len <= 8); iter_ones/iter_zeros: first 3 items plus calls after None; "
              "resize grows <= 4 bits per step; count_ones: relational harness (C10) plus residual family len%64 concrete "
              "(quick: 8 of 64 residuals rotated by VERIF_SEED; thorough: all 64)",
    "outside": "longer iteration prefixes; more than 3 words; fill/flip/reset are decided under C10",
    "assumptions": ["from_raw_parts pre-states satisfy the documented contract len <= bits of the backend"],
    "level_text": "Bounded model checking of the real BitVec code, one inductive step per operation from an arbitrary valid "
                  "from_raw_parts pre-state (three symbolic words, symbolic length, hence every stale tail), against a bit-level "
                  "reference; iterators are specified by the select specification (bit set, prefix count equals rank).",
    "level_note": "Bounds: <= 3 words, iterator prefixes; trusted: Kani/CBMC/CaDiCaL, usize::count_ones as the only primitive of the oracle.",
}

PROPS["C05"].update({
    "level_text": "Bounded model checking of the real BitFieldVec code: one inductive step per operation from an arbitrary "
                  "valid from_raw_parts pre-state (all backing words, width, length, indices and values symbolic), so any "
                  "operation history is a chain of decided steps; the solver covers every value inside the bounds, which the "
                  "sampled tests cannot.",
    "level_note": "Bounds: <= 4 backing words, first 3 iterator items, growth <= 2 elements per resize step; trusted: Kani/CBMC/CaDiCaL, "
                  "the double-width reference get in kani/src/util.rs; dev-profile semantics (overflow = panic).",
})
PROPS["C10"].update({
    "level_text": "Bounded model checking of copy/apply/reset/chunks/unaligned reads against per-element definitions with all "
                  "words, widths and (from,to,len) symbolic; every one of the six copy branches has a reachability witness.",
    "level_note": "Bounds: <= 4 backing words per vector; rayon variants not compiled; trusted: Kani/CBMC/CaDiCaL and the reference get.",
})

PROPS["C14"] = {
    "engine": "kani", "module": "c14", "feature": "c14", "jobs": 12,
    "functions": ["BitVec::{get,count_ones,iter,iter_ones,iter_zeros,eq,set,fill,flip,reset}", "AtomicBitVec::{set,swap,fill,flip,reset}",
                  "BitFieldVec::{get,eq,iter_from,unchecked iterators,set,reset,copy,apply_in_place,try_chunks_mut}",
                  "AtomicBitFieldVec::{set_atomic,reset_atomic}", "Rank9::new / RankSmall::new over dirty storage (see C01)"],
    "bounds": "3 symbolic words (4 for u8/u16), symbolic length and width; readers: relational (clean vs arbitrary garbage beyond the "
              "logical length, in the last word and in spare words); writers: one operation, a symbolic probe bit outside the "
              "documented write set must keep its value; copy for usize with concrete widths 5 (quick) and 63 (thorough)",
    "outside": "push/resize (they legitimately take over spare storage); rayon variants; selection structures (C02)",
    "assumptions": ["from_raw_parts pre-states satisfy the documented contract"],
    "level_text": "Bounded model checking, relational for readers (two executions over storages that agree on the logical contents and "
                  "differ arbitrarily elsewhere) and frame-style for writers (a symbolic probe bit outside the write set).",
    "level_note": "Bounds: <= 4 words; trusted: Kani/CBMC/CaDiCaL.",
}

PROPS["C13"] = {
    "engine": "kani", "module": "c13", "feature": "c13", "jobs": 8,
    "functions": ["AtomicBitFieldVec::{set_atomic,set_atomic_unchecked,get_atomic}", "AtomicBitVec::{set,swap,get}",
                  "sux::verif::sched_point (hook H1)"],
    "bounds": "two backing words, widths 1..=64 (in-word) and 2..=63 (straddling), initial contents, index, value and interference "
              "symbolic; at most 2 interferences per call (3 in thorough), each overwriting every bit outside the analysed element",
    "outside": "lock-freedom under unbounded interference; memory-ordering effects (contents are observed after join); writers of the "
               "same straddling element (documented as unsupported); reset_atomic/fill/flip take &mut self (no concurrency); "
               "EliasFanoConcurrentBuilder equivalence is the permutation harness of C03",
    "assumptions": ["single-word atomicity of load / compare_exchange / fetch_or / fetch_and (hardware / std atomics)",
                    "rely-guarantee argument: between two atomic operations of one thread, writers of distinct elements can only change "
                    "bits outside its element; each successful atomic write is checked to change only bits inside it"],
    "level_text": "Rely-guarantee step check over the real atomic methods: interleavings with any number of writers of other elements "
                  "are over-approximated by a nondeterministic interference function plugged into the scheduling hook; the solver "
                  "decides every initial content, index, value, width and interference inside the bounds.",
    "level_note": "Bounds: 2 words, <= 2 (3) interferences per call; trusted: Kani/CBMC/CaDiCaL, atomicity of single-word operations, "
                  "the rely-guarantee composition argument (DESIGN.md §2 C13).",
    "technique": "bounded model checking (Kani/CBMC) of the real atomic methods under a symbolic interference model through the sux_verif scheduling hook",
}

PROPS["C01"] = {
    "engine": "kani", "module": "c01", "feature": "c01", "jobs": 8,
    "functions": ["Rank9::new", "BlockCounters::{rel,set_rel}", "Rank9::rank_unchecked", "RankSmall::<2,9|1,9|1,10|1,11|3,13>::new / rank_unchecked",
                  "Block32Counters::{all_rel,rel,set_rel}", "BitVec::rank_hinted", "Rank::rank", "RankZero::rank_zero",
                  "NumBits::{num_ones,num_zeros}", "BitCount", "BitLength", "Index", "AddNumBits"],
    "bounds": "backing array of N fully symbolic words, len concrete per harness (64N, 64N-1, 64(N-1)+32, 64(N-1)+1 variants), p a fully "
              "symbolic usize; quick: Rank9 N in {1,8,9}, RankSmall<2,9>/<1,9> N=9, <1,10> N=17, <1,11> N=5; thorough: two blocks plus a "
              "word for every variant (N up to 65), RankSmall<3,13> with structured contents",
    "outside": "vectors beyond 2^32 bits (second entry of upper_counts); symbolic lengths; rank structures underneath selection wrappers "
               "(their constructors are out of reach, C02; the forwarding is macro-generated)",
    "assumptions": ["usize::count_ones is the only trusted primitive of the word-level specification ones_before"],
    "level_text": "Bounded model checking of constructor + query of every rank structure against the word-level prefix-popcount "
                  "specification, for every content of the backing words (saturated and empty blocks, stale tail bits) and every position.",
    "level_note": "Bounds: N <= 65 words, concrete lengths; trusted: Kani/CBMC/CaDiCaL, usize::count_ones.",
}

EF_STUBS = ["f64::log2 is replaced by a table of the platform libm's values for exactly the arguments evaluated on the (n,u) grid "
            "(CBMC's built-in log2 is an approximation); the replay crate's native test re-checks the table against the real f64::log2",
            "selection back-end of EliasFano = witness selector WitSel (kani/src/efcommon.rs): returns any position meeting the selection "
            "specification and asserts the selection precondition; whether SelectAdaptConst/SelectZeroAdaptConst meet that specification is "
            "NOT decided (their constructors are out of reach, C02)"]

PROPS["C03"] = {
    "engine": "kani", "module": "c03", "feature": "c03", "jobs": 8, "pre": ["gen_ef"],
    "functions": ["EliasFanoBuilder::{new,push,push_unchecked,build}", "Extend for EliasFanoBuilder", "From<A: AsRef<[usize]>> for EliasFano",
                  "EliasFanoConcurrentBuilder::{new,set,build}", "EliasFano::{len,map_high_bits,iter,iter_from}", "IndexedSeq::{get,len}",
                  "EliasFanoIterator::{new,new_from,next,len,size_hint}", "BitFieldVec::{new,set,get}, unchecked iterator", "BitVec::{new,set}",
                  "AtomicBitFieldVec::{new,set_atomic_unchecked}", "AtomicBitVec::{new,set}"],
    "bounds": "one harness family per concrete (n,u) grid point (kani/src/ef_grid.rs: quick 13 points, thorough 54; n <= 5, u from 0 to "
              "usize::MAX); the n values, the index, the start position and the order of concurrent set calls are symbolic",
    "outside": "n > 5; u off the grid; the default selection back-ends (see stubs); sequences loaded through epserde (C15)",
    "assumptions": EF_STUBS,
    "level_text": "Bounded model checking of builder + structure per (n,u) grid point with all value sequences symbolic, against the "
                  "sequence itself; generic in the selection back-end through a witness selector that also checks the selection precondition.",
    "level_note": "Bounds: the (n,u) grid; trusted: Kani/CBMC/CaDiCaL, the recorded log2 table (re-checked natively), the assume-guarantee "
                  "split at the selection back-end.",
}

PROPS["C04"] = {
    "engine": "kani", "module": "c04", "feature": "c04", "jobs": 8, "pre": ["gen_ef"],
    "functions": ["IndexedDict::{index_of,contains} for EliasFano", "SuccUnchecked::succ_unchecked", "PredUnchecked::pred_unchecked",
                  "Succ::{succ,succ_strict}", "Pred::{pred,pred_strict}", "BitFieldVec unchecked and reverse unchecked iterators",
                  "EliasFanoBuilder::{new,push,build}"],
    "bounds": "same (n,u) grid as C03; values symbolic; the query is a fully symbolic usize (below, between, equal to elements, above the "
              "last element, above u, usize::MAX)",
    "outside": "n > 5; u off the grid; the default selection back-ends (see stubs)",
    "assumptions": EF_STUBS,
    "level_text": "Bounded model checking per (n,u) grid point with symbolic sequence and a fully symbolic query against four-line "
                  "order-theoretic oracles (least element >= / > q, greatest element <= / < q, membership).",
    "level_note": "Bounds: the (n,u) grid; trusted: Kani/CBMC/CaDiCaL, the recorded log2 table, the assume-guarantee split at the selection back-end.",
}

PROPS["C12"] = {
    "engine": "kani", "module": "c12", "feature": "c12", "jobs": 10, "pre": ["gen_ef"],
    "functions": ["every safe public method of BitVec, AtomicBitVec, BitFieldVec (u8, u32, usize), AtomicBitFieldVec, Rank9, RankSmall, "
                  "EliasFano (get, index_of, succ, succ_strict, pred, pred_strict, iter_from), called with unconstrained arguments"],
    "bounds": "structures as in C01-C06/C10 (3-4 symbolic backing words, 9 words for rank structures, EF grid points (0,0),(1,5),(3,7),(4,10),(2,2^32)); "
              "arguments fully symbolic and unconstrained; iterators driven past their end; run with --prove-safety-only (panics are allowed outcomes)",
    "outside": "*_unchecked methods and get_unaligned_unchecked (documented as requiring in-range arguments); release-only wrap-around; selection "
               "structures, rear-coded lists beyond C09's bounds, VFunc/VFilter (not constructible outside the builder; their index range is C16); "
               "builder, epserde and lender code",
    "assumptions": EF_STUBS + ["a call of select(_zero)_unchecked outside the selection precondition is modelled as an invalid read (it is undefined behaviour with the real back-ends)"],
    "level_text": "Bounded model checking with CBMC's memory-safety checks only (--prove-safety-only): every pointer dereference, "
                  "get_unchecked precondition, slice index and unaligned read reachable from a safe call with arbitrary arguments is in bounds.",
    "level_note": "Bounds as stated; trusted: Kani's memory model (object bounds, std's unsafe-precondition checks as CBMC assertions).",
    "technique": "bounded model checking (Kani/CBMC --prove-safety-only) of safe entry points with unconstrained symbolic arguments",
}

PROPS["C16"] = {
    "engine": "e2", "engine_name": "E2-mirsmt", "feature": "c16",
    "functions": ["fuse::edge_1", "fuse::edge_2", "fuse::edge_2_big",
                  "ShardEdge::{edge,local_edge,local_sig,shard,num_vertices,sort_key,num_sort_keys,shard_high_bits} for FuseLge3Shards, "
                  "FuseLge3FullSigs, FuseLge3NoShards<[u64;2]>, FuseLge3NoShards<[u64;1]>", "Sig::high_bits (as specification of the shard index)"],
    "bounds": "all 64-bit words of the signature, all l, all shard_bits_shift inside the invariant set_up_shards/set_up_graphs establish "
              "(l >= 1; sharded: log2_seg_size <= 31, (l+2) << log2_seg_size <= 2^32, shard_high_bits <= 32; unsharded: log2_seg_size <= 18); "
              "edge-arithmetic obligations are discharged per concrete log2_seg_size (quick: 7 values incl. one drawn by VERIF_SEED; thorough: all), "
              "the others once for all values; quick: overflow-checks=on MIR; thorough: both overflow profiles",
    "outside": "that set_up_shards/set_up_graphs only produce parameters inside the invariant for every n (floating-point set-up code: ln, log2, "
               "lambert_w0, ceil; the assertions they end with are part of the invariant); shard_high_bits > 32 (more than ~8.6e16 keys); "
               "the mwhc logics (feature mwhc, benchmarking only); num_shards() is the trait default 1 << shard_high_bits()",
    "assumptions": ["the MIR dump of rustc nightly (-Zunpretty=mir) is the semantics of the functions (the translator aborts on any construct it does not know)",
                    "z3 5.1 / z3 4.8.12 bit-vector decision procedures (unsat from either is accepted); one query per implementation and profile cross-checked on cvc5 and on the other z3",
                    "results of rotate_right are generalised to fresh variables for the range/distinctness obligations (only strengthens them; a sat answer is re-checked without)"],
    "level_text": "Translation of the compiler's MIR of the real edge functions into SMT-LIB2 bit-vector terms; each obligation (no "
                  "panic, distinct, in range, global = shifted local, sort key, shard = high bits) is one unsat query over all "
                  "signatures and all parameters inside the invariant.",
    "level_note": "Trusted: the MIR->SMT translator (verif_lib/mirsmt.py, refuses unknown constructs), z3/cvc5; parameter invariant as stated.",
    "technique": "symbolic execution of rustc MIR into SMT-LIB2 bit-vectors (own translator), decided by z3 (5.1, fallback 4.8.12), cross-checked on cvc5",
}

PROPS["C09"] = {
    "engine": "kani", "module": "c09", "feature": "c09", "jobs": 8,
    "functions": ["RearCodedListBuilder::{new,push,build,len}", "RearCodedList::{len,get_in_place,lend,lend_from,iter,iter_from,index_of,contains}",
                  "Lend::{new,new_from,next,len,size_hint}", "index_of_sorted", "strcpy", "strcmp", "strcmp_rust", "longest_common_prefix",
                  "encode_int", "encode_int_len", "decode_int (through hook H3)"],
    "bounds": "lists of zero or one string of concrete length <= 3 with symbolic ASCII bytes (1..=127), block size k in 1..=3; index_of/contains with a "
              "symbolic probe of length <= 3 for k = 1 only (for k >= 2 the in-block scan makes Vec::resize symbolic-sized); kernels: every value <= isize::MAX for the variable-byte code (encode_int_len does not terminate above 2^63), byte strings of length <= 3 for strcmp/strcmp_rust/longest_common_prefix",
    "outside": "lists of two or more strings (block-internal decoding, binary search over several blocks, multi-block iteration): every push after "
               "the first copies a suffix whose length depends on symbolic bytes into growing Vecs -- 18 GB in 3 min for two one-byte strings; "
               "multi-byte UTF-8; get() (String::from_utf8 validation)",
    "assumptions": ["strings are built with from_utf8_unchecked over ASCII bytes"],
    "level_text": "Bounded model checking of the single-string list (which contains the boundary cases the property singles out: the empty list "
                  "and a start position equal to len when len is a multiple of k) and of the three kernels every longer list is built from.",
    "level_note": "PARTIAL: multi-string lists are not claimed. Trusted: Kani/CBMC/CaDiCaL.",
}

PROPS["C19"] = {
    "engine": "kani", "module": "c19", "feature": "c19", "jobs": 6, "timeout_q": 600,
    "functions": ["Modulo2Equation::{from_parts,add,add_ptr,is_unsolvable,is_identity,eval_vars}",
                  "Modulo2System::{new,push,check,echelon_form,gaussian_elimination}"],
    "bounds": "one harness per concrete shape (variables <= 4, equations <= 2 (both tiers), concrete variable lists incl. repeated rows, "
              "dependent sums, contradictions, unused variables, rows needing a swap); the constant of every equation is a symbolic u8 (eight "
              "independent GF(2) systems per query); the witness assignment is symbolic",
    "outside": "systems of three or more equations (every such shape exhausts 16 GB, a four-equation shape 44 GB: data-dependent control flow makes the "
               "loop counters symbolic after state merging); lazy_gaussian_elimination (the solver the builder uses): two equations over two variables gave no answer in 20 min / 8 GB; "
               "shapes not listed; symbolic variable lists (every Vec becomes symbolic-sized)",
    "assumptions": ["std::backtrace::Backtrace::capture is stubbed by Backtrace::disabled (error values are irrelevant to the property; the "
                    "backtrace drop glue alone took 6.5 GB)", "results are mem::forget-ed (drop glue not analysed)"],
    "level_text": "Bounded model checking of the dense solver per concrete shape with symbolic constants: Ok(s) implies check(s) on the "
                  "original system, and for a symbolic witness t, check(t) implies Ok -- 'Ok exactly when solvable', and no panic.",
    "level_note": "PARTIAL: the lazy solver is not claimed. Trusted: Kani/CBMC/CaDiCaL.",
}

PROPS["C11"] = {
    "engine": "kani", "module": "c11", "feature": "c11", "jobs": 8, "pre": ["gen_ef"],
    "functions": ["mem_dbg::MemSize::mem_size(SizeFlags::default()) of Rank9, RankSmall (five variants), Select9, BitVec, BitFieldVec, EliasFano",
                  "Rank9::new", "RankSmall::new", "Select9::new (thorough, concrete contents, <= 1024 bits)", "BitVec::new", "BitFieldVec::{new,new_unaligned}",
                  "EliasFanoBuilder::{new,build}", "EliasFano::{map_low_bits,map_high_bits}"],
    "bounds": "rank structures: concrete lengths (1, 512, 513, 4096, 4097, 8192, 8193 bits) over all-zero / all-one contents (space does not depend "
              "on contents): overhead <= documented fraction of len/8 plus 96 bytes; BitVec/BitFieldVec: symbolic length (<= 2^20 / 2^16) and width; "
              "Elias-Fano: on the (n,u) grid the number of lower bits equals floor(lg(u/n)) as computed by the platform libm, the two vectors have "
              "exactly n fields resp. n + (u >> l) + 1 bits, and mem_size is those plus headers",
    "outside": "the n(2 + lg(u/n)) inequality off the grid (transcendental, libm-dependent); static functions and filters (1.23 n b / 1.135 n b: "
               "set_up_graphs computes the geometry with ln, log2, ceil, lambert_w0 in f64 and mem_size needs a built function, C07); selection "
               "structures other than Select9",
    "assumptions": EF_STUBS[:1] + ["mem_dbg's derive is trusted to count the heap allocations of Box<[T]> / Vec<T> of Copy data"],
    "level_text": "Bounded model checking of constructor + mem_size against the documented fraction (rank structures, Select9) and against the "
                  "exact allocation formula (vectors, Elias-Fano on the grid).",
    "level_note": "PARTIAL (clauses listed under 'outside' are not claimed). Trusted: Kani/CBMC/CaDiCaL, mem_dbg's MemSize derive.",
}

PROPS["C02"] = {
    "engine": "kani", "module": "c02", "feature": "c02", "jobs": 6, "timeout_q": 600,
    "functions": ["BitVec::select_hinted", "BitVec::select_zero_hinted", "SpanType::from_span", "Inventory for usize (set_*_span, is_*_span, get)",
                  "SelectAdapt::log2_ones_per_sub32", "Select::select guard", "thorough: SelectAdapt::{select_unchecked,map}, SelectAdaptConst::select_unchecked, SelectZeroAdapt::select_zero_unchecked, SelectZeroAdaptConst::select_zero_unchecked relative to the inventory invariant"],
    "bounds": "hinted completion: 2 (quick) / 3 (thorough) fully symbolic words, symbolic valid hint and rank; kernels: every usize; "
              "query-side step checks (thorough, one harness per concrete instantiation: SelectAdapt, SelectAdapt after map, SelectAdaptConst<_,_,3,0>, SelectZeroAdapt, SelectZeroAdaptConst<_,_,3,0>): one fully symbolic word, 16-bit spans, L=3, one subinventory word",
    "outside": "the CONSTRUCTORS of SelectAdapt, SelectAdaptConst, SelectZeroAdapt, SelectZeroAdaptConst, SelectSmall, SelectZeroSmall and Select9 "
               "(inventories whose length is decided by population counts of symbolic words: 51 GB for one word): nothing is claimed end to end, a "
               "change inside a constructor is not detected; the 32/64-bit span tiers; the query functions of SelectSmall, SelectZeroSmall, Select9",
    "assumptions": ["query-side step check: the inventory invariant is the one the documentation of SelectAdapt states (hand-written in the harness; for the zero selectors the same invariant over the complemented word)"],
    "level_text": "Bounded model checking of the pieces of selection that are array-only code: the hinted scan, the span-type and inventory "
                  "kernels over all values, the None guards, and (thorough) the query functions of the four adaptive selectors relative to a stated inventory invariant.",
    "level_note": "PARTIAL: no selection structure is decided end to end (constructors out of reach). Trusted: Kani/CBMC/CaDiCaL.",
}

# Properties not (yet) claimed, with the reason. Entries for properties that
# gain a check are ignored by tools/gen_manifest.py.
NOT_APPLICABLE = {
    "C07": "VBuilder::try_build_func needs threads (std::thread::scope, crossbeam, rayon), per-key xxh3 hashing and loops proportional to n: no bounded symbolic encoding of 'terminates and maps every key' is within reach of Kani/CBMC or a hand translator; the decidable part (edges in range, same at build and query time) is C16",
    "C08": "no-false-negatives is C07 for a hashed value (same builder, same obstacle); 'false-positive frequency close to 2^-b' is a statistical statement about a hash, not an assertion an SMT solver can decide",
    "C15": "mmap/load_full are file I/O and an FFI mmap call; epserde's in-memory (de)serialisation hashes type names and walks a generic reader/writer stack of a dependency: heap- and loop-heavy, beyond a bounded encoding; measured obstacles in DESIGN.md §2 C15",
    "C17": "same entry points and obstacles as C07 (threads, per-key hashing, file-backed stores); build_loop is a private generic method whose retry logic cannot be driven without rewriting the builder",
    "C18": "offline store is file I/O; the in-memory store pushes into the Vec selected by symbolic top bits (symbolic choice of heap object: 20 GB / 13 min for two pushes), and with those bits fixed nothing is left for a solver to decide",
    "C20": "ZstdLineLender is FFI (zstd C library), GzipLineLender a full inflate state machine, LineLender over a 3-byte Cursor reached 8 GB in 6 min (BufRead::read_line: memchr, String growth, UTF-8 validation); only trivial adapters are encodable",
}


def select_for_seed(pid, tier, seed, names):
    """Quick tier: rotating sub-families (residual families etc.) chosen by VERIF_SEED.
    Harness names containing `::rot<k>of<n>_` are kept only when seed % n == k."""
    import re
    if tier != "quick":
        return [n for n in names]
    out = []
    for n in names:
        m = re.search(r"::rot(\d+)of(\d+)_", n)
        if m and (seed % int(m.group(2))) != int(m.group(1)):
            continue
        out.append(n)
    return out
